"""Semantics-preserving normalisation of function ASTs, applied before the rules are evaluated, so that harmless
refactorings (extract helper, if/else <-> conditional expression, early-return guards, `a and f()` <-> `if a: f()`,
`x = x op y` <-> `x op= y`, return-through-a-local) do not change what the rules see.

N1  inline refactoring artefacts: a call of a *private* function/method/closure that did not exist when the rules
    were written (not in baseline_defs.json) is replaced by the callee's body (parameters renamed to the argument
    names or bound by assignments; `return e` becomes the assignment / return / expression of the call site).
    Only non-recursive callees whose `return`s are all in tail position of the call site are inlined; depth <= 3.
N2  `if c: T = a else: T = b`            -> `T = a if c else b`
    `if c: return a else: return b`      -> `return a if c else b`   (also `if c: return a` + next stmt `return b`)
N3  `a and f()` / `a or f()` statements  -> `if a: f()` / `if not a: f()`
N4  guard clause at function top level   `if c: return` + rest      -> `if not c: rest`
N5  `x = x op y`                         -> `x op= y`
N6  `v = e; return v` (v used nowhere else) -> `return e`
All transforms are local rewrites that preserve evaluation order and values; nodes keep the line numbers of the
source they came from (reports still point at real lines). The normalised tree is a copy - sources are untouched.
"""
from __future__ import annotations

import ast
import copy
import json
import os

_BASE = None


def baseline():
    global _BASE
    if _BASE is None:
        p = os.path.join(os.path.dirname(os.path.abspath(__file__)), "baseline_defs.json")
        d = json.load(open(p))["defs"]
        _BASE = {rel: {q.split("#")[0].split(".")[-1] for q in qs} | set(qs) for rel, qs in d.items()}
    return _BASE


def baseline_qualnames():
    p = os.path.join(os.path.dirname(os.path.abspath(__file__)), "baseline_defs.json")
    return {rel: {q.split("#")[0] for q in qs} for rel, qs in json.load(open(p))["defs"].items()}


def is_artefact(rel: str, fn, nested: bool = False) -> bool:
    """A private def (or, nested=True, any closure) that did not exist in the baseline tree (by simple name, per module)."""
    name = getattr(fn, "name", "")
    if (not name.startswith("_") and not nested) or (name.startswith("__") and name.endswith("__")):
        return False
    return name not in baseline().get(rel, set())


# ---------------------------------------------------------------------------------------------------------------

def _loc(new, old):
    ast.copy_location(new, old)
    for n in ast.walk(new):
        if not hasattr(n, "lineno") and isinstance(n, (ast.expr, ast.stmt)):
            ast.copy_location(n, old)
    return new


def _norm(e):
    return ast.unparse(e)


def _ifexp(test, a, b):
    """`a if test else b`, factoring `f(.., x, ..) if c else f(.., y, ..)` into `f(.., x if c else y, ..)`."""
    if _norm(a) == _norm(b):
        return a
    if _norm(test) == _norm(a):
        return ast.BoolOp(op=ast.Or(), values=[a, b])            # `x if x else y`  ->  `x or y`
    if isinstance(a, ast.Call) and isinstance(b, ast.Call) and isinstance(a.func, ast.Attribute) and isinstance(b.func, ast.Attribute) and a.func.attr == b.func.attr \
            and [_norm(x) for x in a.args] == [_norm(x) for x in b.args] and [(k.arg, _norm(k.value)) for k in a.keywords] == [(k.arg, _norm(k.value)) for k in b.keywords] \
            and _norm(a.func.value) != _norm(b.func.value):
        c = copy.deepcopy(a)                                          # `x.m(..) if c else y.m(..)`  ->  `(x if c else y).m(..)`
        c.func.value = _ifexp(test, a.func.value, b.func.value)
        return c
    if isinstance(a, ast.Call) and isinstance(b, ast.Call) and _norm(a.func) == _norm(b.func) and len(a.args) == len(b.args) \
            and [k.arg for k in a.keywords] == [k.arg for k in b.keywords] and not any(isinstance(x, ast.Starred) for x in a.args + b.args):
        pa = list(a.args) + [k.value for k in a.keywords]
        pb = list(b.args) + [k.value for k in b.keywords]
        diff = [i for i, (x, y) in enumerate(zip(pa, pb)) if _norm(x) != _norm(y)]
        if len(diff) == 1:
            i = diff[0]
            new = ast.IfExp(test=test, body=pa[i], orelse=pb[i])
            c = copy.deepcopy(a)
            if i < len(c.args):
                c.args[i] = new
            else:
                c.keywords[i - len(c.args)].value = new
            return c
    # `f(x)[0] if c else f(y)[0]` -> `f(x if c else y)[0]` (same for an attribute of the result) - only when the inner factoring succeeds
    if isinstance(a, ast.Subscript) and isinstance(b, ast.Subscript) and _norm(a.slice) == _norm(b.slice):
        inner = _ifexp(test, a.value, b.value)
        if not isinstance(inner, ast.IfExp):
            return ast.Subscript(value=inner, slice=a.slice, ctx=ast.Load())
    if isinstance(a, ast.Attribute) and isinstance(b, ast.Attribute) and a.attr == b.attr:
        inner = _ifexp(test, a.value, b.value)
        if not isinstance(inner, ast.IfExp):
            return ast.Attribute(value=inner, attr=a.attr, ctx=ast.Load())
    # N24 (also for conditional expressions built from if / elif / else): equal outcomes of nested tests are one outcome
    if isinstance(b, ast.IfExp) and _norm(a) == _norm(b.body):
        return ast.IfExp(test=ast.BoolOp(op=ast.Or(), values=[test, b.test]), body=a, orelse=b.orelse)
    if isinstance(a, ast.IfExp) and _norm(b) == _norm(a.orelse):
        return ast.IfExp(test=ast.BoolOp(op=ast.And(), values=[test, a.test]), body=a.body, orelse=b)
    return ast.IfExp(test=test, body=a, orelse=b)


class _Canon(ast.NodeTransformer):
    """N2, N3, N5 on statement lists (applied bottom-up)."""

    def visit_BinOp(self, node):
        # N22: the concatenation of two string (bytes) constants is that constant (text assembled from named fragments, N21)
        self.generic_visit(node)
        if isinstance(node.op, ast.Add) and isinstance(node.left, ast.Constant) and isinstance(node.right, ast.Constant) \
                and type(node.left.value) is type(node.right.value) and isinstance(node.left.value, (str, bytes)):
            return _loc(ast.Constant(value=node.left.value + node.right.value), node)
        return node

    def _block(self, body):
        out = []
        i = 0
        body = list(body)
        while i < len(body):
            s = body[i]
            nxt = body[i + 1] if i + 1 < len(body) else None
            # `if c: return a` followed by `return b`
            if isinstance(s, ast.If) and not s.orelse and len(s.body) == 1 and isinstance(s.body[0], ast.Return) and s.body[0].value is not None \
                    and isinstance(nxt, ast.Return) and nxt.value is not None:
                r = ast.Return(value=_ifexp(s.test, s.body[0].value, nxt.value))
                out.append(_loc(r, s))
                i += 2
                continue
            # `v = e; return v`
            if isinstance(s, ast.Assign) and len(s.targets) == 1 and isinstance(s.targets[0], ast.Name) and isinstance(nxt, ast.Return) \
                    and isinstance(nxt.value, ast.Name) and nxt.value.id == s.targets[0].id and i + 2 == len(body):
                out.append(_loc(ast.Return(value=s.value), s))
                i += 2
                continue
            out.append(s)
            i += 1
        return out

    def generic_visit(self, node):
        super().generic_visit(node)
        for f in ("body", "orelse", "finalbody"):
            v = getattr(node, f, None)
            if isinstance(v, list) and v and isinstance(v[0], ast.stmt):
                blk = self._block(v)
                if len(blk) > 1 and any(isinstance(x, ast.Pass) for x in blk) and not all(isinstance(x, ast.Pass) for x in blk):
                    blk = [x for x in blk if not isinstance(x, ast.Pass)]          # a `pass` among other statements is noise
                setattr(node, f, blk)
        return node

    def visit_If(self, node):
        self.generic_visit(node)
        # N12: a constant test (left by inlining a helper called with a literal flag) selects its branch
        if isinstance(node.test, ast.Constant) and (isinstance(node.test.value, bool) or node.test.value is None):
            return (node.body if node.test.value else node.orelse) or [_loc(ast.Pass(), node)]
        # N10: `if c: pass else: X`  ->  `if not c: X`
        if node.orelse and all(isinstance(x, ast.Pass) for x in node.body):
            t = node.test.operand if isinstance(node.test, ast.UnaryOp) and isinstance(node.test.op, ast.Not) else ast.UnaryOp(op=ast.Not(), operand=node.test)
            node = _loc(ast.If(test=t, body=node.orelse, orelse=[]), node)
        # N17: `if not c: A else: B` -> `if c: B else: A` (both branches present, neither an elif chain)
        if node.orelse and isinstance(node.test, ast.UnaryOp) and isinstance(node.test.op, ast.Not) and not (len(node.orelse) == 1 and isinstance(node.orelse[0], ast.If)):
            node = _loc(ast.If(test=node.test.operand, body=node.orelse, orelse=node.body), node)
        b, o = node.body, node.orelse
        if len(b) == 1 and len(o) == 1:
            x, y = b[0], o[0]
            if isinstance(x, ast.Assign) and isinstance(y, ast.Assign) and len(x.targets) == len(y.targets) \
                    and [_norm(t) for t in x.targets] == [_norm(t) for t in y.targets] and all(isinstance(t, (ast.Name, ast.Attribute, ast.Subscript, ast.Tuple)) for t in x.targets):
                return _loc(ast.Assign(targets=list(x.targets), value=_ifexp(node.test, x.value, y.value)), node)
            if isinstance(x, ast.Return) and isinstance(y, ast.Return) and x.value is not None and y.value is not None:
                return _loc(ast.Return(value=_ifexp(node.test, x.value, y.value)), node)
            if isinstance(x, ast.Expr) and isinstance(y, ast.Expr):
                v = _ifexp(node.test, x.value, y.value)
                if not isinstance(v, ast.IfExp):
                    return _loc(ast.Expr(value=v), node)
        return node

    @staticmethod
    def _splice(elts):
        out = []
        for x in elts:
            if isinstance(x, ast.Starred) and isinstance(x.value, (ast.Tuple, ast.List)) and not any(isinstance(y, ast.Starred) for y in x.value.elts):
                out.extend(x.value.elts)        # N13: `(a, *(b, c))` -> `(a, b, c)`
            else:
                out.append(x)
        return out

    def visit_Tuple(self, node):
        self.generic_visit(node)
        if isinstance(node.ctx, ast.Load):
            node.elts = self._splice(node.elts)
        return node

    visit_List = visit_Tuple

    def visit_Call(self, node):
        self.generic_visit(node)
        node.args = self._splice(node.args)
        return node

    def visit_UnaryOp(self, node):
        self.generic_visit(node)
        # N16: `not a is b` -> `a is not b`, `not a in b` -> `a not in b` (exact for identity and membership)
        flip = {ast.Is: ast.IsNot, ast.IsNot: ast.Is, ast.In: ast.NotIn, ast.NotIn: ast.In}
        if isinstance(node.op, ast.Not) and isinstance(node.operand, ast.Compare) and len(node.operand.ops) == 1 and type(node.operand.ops[0]) in flip:
            c = node.operand
            return _loc(ast.Compare(left=c.left, ops=[flip[type(c.ops[0])]()], comparators=c.comparators), node)
        return node

    def visit_IfExp(self, node):
        self.generic_visit(node)
        if isinstance(node.test, ast.Constant) and (isinstance(node.test.value, bool) or node.test.value is None):
            return node.body if node.test.value else node.orelse         # N12 for conditional expressions
        # N24: `X if a else (X if b else Y)` -> `X if a or b else Y`;  `(X if b else Y) if a else Y` -> `X if a and b else Y` (same evaluation order)
        if isinstance(node.orelse, ast.IfExp) and _norm(node.body) == _norm(node.orelse.body):
            return self.visit_IfExp(_loc(ast.IfExp(test=ast.BoolOp(op=ast.Or(), values=[node.test, node.orelse.test]), body=node.body, orelse=node.orelse.orelse), node))
        if isinstance(node.body, ast.IfExp) and _norm(node.orelse) == _norm(node.body.orelse):
            return self.visit_IfExp(_loc(ast.IfExp(test=ast.BoolOp(op=ast.And(), values=[node.test, node.body.test]), body=node.body.body, orelse=node.orelse), node))
        if isinstance(node.test, ast.UnaryOp) and isinstance(node.test.op, ast.Not):
            node = _loc(ast.IfExp(test=node.test.operand, body=node.orelse, orelse=node.body), node)     # `a if not c else b` -> `b if c else a`
        if isinstance(node.test, (ast.Name, ast.Attribute)) and _norm(node.test) == _norm(node.body):
            return _loc(ast.BoolOp(op=ast.Or(), values=[node.body, node.orelse]), node)                 # `a if a else b` -> `a or b`
        if isinstance(node.test, (ast.Name, ast.Attribute)) and _norm(node.test) == _norm(node.orelse):
            return _loc(ast.BoolOp(op=ast.And(), values=[node.orelse, node.body]), node)                # `b if a else a` -> `a and b`
        return node

    def visit_With(self, node):
        self.generic_visit(node)
        # `with a: with b: body`  ->  `with a, b: body`
        while len(node.body) == 1 and isinstance(node.body[0], ast.With):
            inner = node.body[0]
            node.items = node.items + inner.items
            node.body = inner.body
        return node

    def visit_Expr(self, node):
        self.generic_visit(node)
        v = node.value
        # N11: `delattr(x, "name")` -> `del x.name`;  `setattr(x, "name", v)` -> `x.name = v`
        if isinstance(v, ast.Call) and isinstance(v.func, ast.Name) and not v.keywords and len(v.args) >= 2 and isinstance(v.args[1], ast.Constant) \
                and isinstance(v.args[1].value, str) and v.args[1].value.isidentifier():
            if v.func.id == "delattr" and len(v.args) == 2:
                return _loc(ast.Delete(targets=[ast.Attribute(value=v.args[0], attr=v.args[1].value, ctx=ast.Del())]), node)
            if v.func.id == "setattr" and len(v.args) == 3:
                return _loc(ast.Assign(targets=[ast.Attribute(value=v.args[0], attr=v.args[1].value, ctx=ast.Store())], value=v.args[2]), node)
        if isinstance(v, ast.BoolOp) and isinstance(v.values[-1], ast.Call) and len(v.values) >= 2:
            pre = v.values[0] if len(v.values) == 2 else ast.BoolOp(op=v.op, values=v.values[:-1])
            test = pre if isinstance(v.op, ast.And) else ast.UnaryOp(op=ast.Not(), operand=pre)
            return _loc(ast.If(test=test, body=[_loc(ast.Expr(value=v.values[-1]), node)], orelse=[]), node)
        return node

    def visit_Assign(self, node):
        self.generic_visit(node)
        # `x = x` (left by inlining a helper whose result variable has the caller's name): nothing happens
        if len(node.targets) == 1 and isinstance(node.targets[0], ast.Name) and isinstance(node.value, ast.Name) and node.targets[0].id == node.value.id:
            return _loc(ast.Pass(), node)
        # N9: `x = A if c else x`  ->  `if c: x = A`   (and the mirrored form)
        if len(node.targets) == 1 and isinstance(node.targets[0], ast.Name) and isinstance(node.value, ast.IfExp):
            v, tname = node.value, node.targets[0].id
            if isinstance(v.orelse, ast.Name) and v.orelse.id == tname:
                return _loc(ast.If(test=v.test, body=[_loc(ast.Assign(targets=[node.targets[0]], value=v.body), node)], orelse=[]), node)
            if isinstance(v.body, ast.Name) and v.body.id == tname:
                return _loc(ast.If(test=ast.UnaryOp(op=ast.Not(), operand=v.test), body=[_loc(ast.Assign(targets=[node.targets[0]], value=v.orelse), node)], orelse=[]), node)
        # N8: `a, b = x, y`  ->  `a = x; b = y` when no earlier target occurs in a later value (same evaluation order, same result)
        if len(node.targets) == 1 and isinstance(node.targets[0], (ast.Tuple, ast.List)) and isinstance(node.value, (ast.Tuple, ast.List)) \
                and len(node.targets[0].elts) == len(node.value.elts) and all(isinstance(t, ast.Name) for t in node.targets[0].elts) \
                and not any(isinstance(v, ast.Starred) for v in node.value.elts):
            ts, vs = node.targets[0].elts, node.value.elts
            safe = all(not any(isinstance(x, ast.Name) and x.id == ts[i].id for x in ast.walk(vs[j])) for i in range(len(ts)) for j in range(i + 1, len(vs)))
            if safe:
                return [self.visit_Assign(_loc(ast.Assign(targets=[t], value=v), node)) for t, v in zip(ts, vs)]
        if len(node.targets) == 1 and isinstance(node.value, ast.BinOp) and isinstance(node.targets[0], (ast.Name, ast.Attribute, ast.Subscript)) \
                and _norm(node.value.left) == _norm(node.targets[0]):
            t = copy.deepcopy(node.targets[0])
            return _loc(ast.AugAssign(target=t, op=node.value.op, value=node.value.right), node)
        return node


def _append_loops(fn):
    """N14: `acc = []` followed by `for x in IT: <pure local definitions>; acc.append(E)` -> `acc = [E' for x in IT]` (E' = E with the
    loop-local definitions substituted), when the loop has no other statement, no else, and its locals are not read outside it."""
    from .sem import is_pure

    def blocks(node):
        for f in ("body", "orelse", "finalbody"):
            v = getattr(node, f, None)
            if isinstance(v, list) and v and isinstance(v[0], ast.stmt):
                yield v
        for h in getattr(node, "handlers", []) or []:
            yield h.body
    for node in list(ast.walk(fn)):
        if isinstance(node, (ast.ClassDef,)) or (isinstance(node, ast.FunctionDef) and node is not fn):
            continue
        for blk in blocks(node):
            i = 0
            while i + 1 < len(blk):
                a, lp = blk[i], blk[i + 1]
                i += 1
                if not (isinstance(a, ast.Assign) and len(a.targets) == 1 and isinstance(a.targets[0], ast.Name) and isinstance(a.value, ast.List) and not a.value.elts):
                    continue
                acc = a.targets[0].id
                if not (isinstance(lp, ast.For) and not lp.orelse and lp.body and isinstance(lp.target, (ast.Name, ast.Tuple))):
                    continue
                last = lp.body[-1]
                if not (isinstance(last, ast.Expr) and isinstance(last.value, ast.Call) and isinstance(last.value.func, ast.Attribute) and last.value.func.attr == "append"
                        and isinstance(last.value.func.value, ast.Name) and last.value.func.value.id == acc and len(last.value.args) == 1 and not last.value.keywords):
                    continue
                defs = lp.body[:-1]
                # leading `if c: continue` guards become the comprehension's filter
                filters = []
                while defs and isinstance(defs[0], ast.If) and not defs[0].orelse and len(defs[0].body) == 1 and isinstance(defs[0].body[0], ast.Continue) and is_pure(defs[0].test):
                    filters.append(ast.UnaryOp(op=ast.Not(), operand=defs[0].test))
                    defs = defs[1:]
                if not all(isinstance(d, ast.Assign) and len(d.targets) == 1 and isinstance(d.targets[0], ast.Name) and is_pure(d.value) for d in defs):
                    continue
                locs = [d.targets[0].id for d in defs]
                if len(set(locs)) != len(locs) or acc in locs:
                    continue
                inside = {id(x) for x in ast.walk(lp)}
                if any(isinstance(x, ast.Name) and x.id in locs and id(x) not in inside for x in ast.walk(fn)):
                    continue
                if any(isinstance(x, ast.Name) and x.id == acc for x in ast.walk(lp.iter)) or any(isinstance(x, ast.Name) and x.id == acc for d in defs for x in ast.walk(d.value)) \
                        or any(isinstance(x, ast.Name) and x.id == acc for x in ast.walk(last.value.args[0])):
                    continue
                # substitute definitions into one another first (in order), then into E
                env = {}
                for d in defs:
                    v = copy.deepcopy(d.value)
                    if env:
                        v = _Rename(dict(env)).visit(v)
                    env[d.targets[0].id] = v
                e = _Rename(dict(env)).visit(copy.deepcopy(last.value.args[0])) if env else copy.deepcopy(last.value.args[0])
                comp = ast.ListComp(elt=e, generators=[ast.comprehension(target=lp.target, iter=lp.iter, ifs=filters, is_async=0)])
                blk[i - 1:i + 1] = [_loc(ast.Assign(targets=[a.targets[0]], value=comp), a)]
    return fn


def _unroll_table_loops(fn):
    """N20: a table-driven loop `for a, b in ((x1, y1), (x2, y2)): BODY` over literal rows of plain values is the sequence
    BODY[a:=x1, b:=y1]; BODY[a:=x2, b:=y2] - when the body neither breaks/continues nor rebinds the loop variables or what the rows name,
    no closure captures the loop variables, and they are not used outside the loop."""
    def blocks(node):
        for f in ("body", "orelse", "finalbody"):
            v = getattr(node, f, None)
            if isinstance(v, list) and v and isinstance(v[0], ast.stmt):
                yield v
        for h in getattr(node, "handlers", []) or []:
            yield h.body

    def plain(e):
        return isinstance(e, (ast.Name, ast.Constant)) or (isinstance(e, ast.Attribute) and plain(e.value))

    def own_jumps(stmts):
        for st in stmts:
            if isinstance(st, (ast.Break, ast.Continue)):
                return True
            if isinstance(st, (ast.For, ast.While, ast.FunctionDef, ast.ClassDef)):
                if isinstance(st, (ast.For, ast.While)) and own_jumps(st.orelse):
                    return True
                continue
            for blk in blocks(st):
                if own_jumps(blk):
                    return True
        return False
    for node in list(ast.walk(fn)):
        if isinstance(node, ast.ClassDef) or (isinstance(node, ast.FunctionDef) and node is not fn):
            continue
        for blk in blocks(node):
            i = 0
            while i < len(blk):
                lp = blk[i]
                i += 1
                if not (isinstance(lp, ast.For) and not lp.orelse and isinstance(lp.target, ast.Tuple) and all(isinstance(t, ast.Name) for t in lp.target.elts)
                        and isinstance(lp.iter, (ast.Tuple, ast.List)) and 1 <= len(lp.iter.elts) <= 4):
                    continue
                tv = [t.id for t in lp.target.elts]
                rows = lp.iter.elts
                if not all(isinstance(r, (ast.Tuple, ast.List)) and len(r.elts) == len(tv) and all(plain(e) for e in r.elts) for r in rows) or len(set(tv)) != len(tv):
                    continue
                if own_jumps(lp.body):
                    continue
                inside = {id(x) for x in ast.walk(lp)}
                row_names = {x.id for r in rows for x in ast.walk(r) if isinstance(x, ast.Name)}
                stored = {x.id for b in lp.body for x in ast.walk(b) if isinstance(x, ast.Name) and isinstance(x.ctx, (ast.Store, ast.Del))}
                if stored & (set(tv) | row_names):
                    continue
                if any(isinstance(x, (ast.FunctionDef, ast.Lambda, ast.Global, ast.Nonlocal, ast.Yield, ast.YieldFrom, ast.GeneratorExp)) for b in lp.body for x in ast.walk(b)):
                    continue
                if any(isinstance(x, ast.Name) and x.id in tv and id(x) not in inside for x in ast.walk(fn)):
                    continue
                out = []
                for r in rows:
                    env = dict(zip(tv, r.elts))
                    for b in lp.body:
                        out.append(_Rename(dict(env)).visit(copy.deepcopy(b)))
                blk[i - 1:i] = out
                i += len(out) - 1
    return fn


def _records_in_containers(fn, recs, parents):
    """N15b: instances of an artefact NamedTuple that live in a local list (`cache = [K(None, None)] * n; cache[i] = K(f, s); cache[i].frame`)
    become plain tuples: `K(a, b)` -> `(a, b)`, `<K-typed>.field` -> `<K-typed>[index]`. A NamedTuple is a tuple, so indexing, slicing,
    comparison and unpacking are unchanged; done only when every K-typed value of the function is accounted for: record locals are
    bound only from constructors / elements of record lists, attribute access is by field, and neither the records nor their lists
    escape (argument, return, yield, attribute store, method call)."""
    def bindings(name):
        out = []
        for n in ast.walk(fn):
            if isinstance(n, ast.Assign) and any(isinstance(t, ast.Name) and t.id == name for t in n.targets):
                out.append(n.value)
            elif isinstance(n, ast.AnnAssign) and isinstance(n.target, ast.Name) and n.target.id == name and n.value is not None:
                out.append(n.value)
            elif isinstance(n, ast.NamedExpr) and isinstance(n.target, ast.Name) and n.target.id == name:
                out.append(n.value)
            elif isinstance(n, ast.Name) and n.id == name and isinstance(n.ctx, ast.Store):
                par = parents.get(id(n))
                if not isinstance(par, (ast.Assign, ast.AnnAssign, ast.NamedExpr)) or (isinstance(par, ast.Assign) and n not in par.targets):
                    out.append(None)           # bound in another way (loop target, unpacking, with ...)
        return out
    names = {n.id for n in ast.walk(fn) if isinstance(n, ast.Name) and isinstance(n.ctx, ast.Store)}
    rec, cont = {}, {}

    def ktype(e):
        if isinstance(e, ast.Call) and isinstance(e.func, ast.Name) and e.func.id in recs and not any(isinstance(a, ast.Starred) for a in e.args) and all(k.arg for k in e.keywords):
            return e.func.id
        if isinstance(e, ast.Name):
            return rec.get(e.id)
        if isinstance(e, ast.NamedExpr):
            return ktype(e.value)
        if isinstance(e, ast.Subscript) and not isinstance(e.slice, ast.Slice):
            return ctype(e.value)
        return None

    def ctype(e):
        if isinstance(e, ast.Name):
            return cont.get(e.id)
        if isinstance(e, ast.List) and e.elts:
            ks = {ktype(x) for x in e.elts}
            return next(iter(ks)) if len(ks) == 1 and None not in ks else None
        if isinstance(e, ast.BinOp) and isinstance(e.op, ast.Mult):
            return ctype(e.left) or ctype(e.right)
        if isinstance(e, ast.ListComp):
            return ktype(e.elt)
        if isinstance(e, ast.IfExp):
            a, b = ctype(e.body), ctype(e.orelse)
            none = lambda x: isinstance(x, ast.Constant) and x.value is None  # noqa: E731
            if a and (b == a or none(e.orelse)):
                return a
            if b and none(e.body):
                return b
        return None
    changed = True
    while changed:
        changed = False
        for nm in names:
            bs = bindings(nm)
            if not bs or None in bs:
                continue
            if nm not in rec:
                ks = {ktype(b) for b in bs}
                if len(ks) == 1 and None not in ks:
                    rec[nm] = next(iter(ks))
                    changed = True
            if nm not in cont and nm not in rec:
                real = [b for b in bs if not (isinstance(b, ast.Constant) and b.value is None) and not (isinstance(b, ast.List) and not b.elts)]
                ks = {ctype(b) for b in real}
                if real and len(ks) == 1 and None not in ks:
                    cont[nm] = next(iter(ks))
                    changed = True
    if not cont:
        return
    # element stores into the containers must be records too
    for n in ast.walk(fn):
        if isinstance(n, ast.Subscript) and isinstance(n.ctx, ast.Store) and isinstance(n.value, ast.Name) and n.value.id in cont:
            par = parents.get(id(n))
            if not (isinstance(par, ast.Assign) and ktype(par.value) == cont[n.value.id]):
                return
    # no escapes, attribute access by field only
    for n in ast.walk(fn):
        if isinstance(n, ast.Name) and isinstance(n.ctx, ast.Load) and (n.id in rec or n.id in cont):
            par = parents.get(id(n))
            if isinstance(par, ast.Call) and n in par.args and not (isinstance(par.func, ast.Name) and par.func.id in ("len", "bool", "tuple", "list", "isinstance")):
                return
            if isinstance(par, (ast.Return, ast.Yield, ast.YieldFrom, ast.keyword, ast.Starred)):
                return
            if isinstance(par, ast.Assign) and par.value is n and any(isinstance(t, ast.Attribute) for t in par.targets):
                return
    for n in ast.walk(fn):
        if isinstance(n, ast.Attribute) and ktype(n.value) and n.attr not in recs[ktype(n.value)][0]:
            return

    class T(ast.NodeTransformer):
        def visit_Attribute(t, n):
            k = ktype(n.value)
            t.generic_visit(n)
            if k and isinstance(n.ctx, ast.Load):
                return _loc(ast.Subscript(value=n.value, slice=ast.Constant(value=recs[k][0].index(n.attr)), ctx=ast.Load()), n)
            return n

        def visit_Call(t, n):
            k = ktype(n)
            t.generic_visit(n)
            if k and isinstance(n, ast.Call):
                fields, defaults = recs[k]
                vals = dict(zip(fields, n.args))
                for kx in n.keywords:
                    vals[kx.arg] = kx.value
                elts = [vals.get(f_, defaults.get(f_)) for f_ in fields]
                if all(e is not None for e in elts):
                    return _loc(ast.Tuple(elts=elts, ctx=ast.Load()), n)
            return n
    used = set(cont.values())
    T().visit(fn)


def _scalarise_records(model, rel, fn):
    """N15: a local that only ever holds instances of an artefact NamedTuple class (one that did not exist in the baseline), built by
    direct constructor calls, and that is only read field by field, is replaced by one local per field:
    `r = K(a, b); f(r.x, r.y)`  ->  `r__x = a; r__y = b; f(r__x, r__y)` (same evaluation order of the arguments)."""
    recs = {}
    for s_ in model.files[rel].clean_tree.body:
        if isinstance(s_, ast.ClassDef) and s_.name not in baseline().get(rel, set()) and any(ast.unparse(b).split(".")[-1] == "NamedTuple" for b in s_.bases):
            fields = [x.target.id for x in s_.body if isinstance(x, ast.AnnAssign) and isinstance(x.target, ast.Name)]
            defaults = {x.target.id: x.value for x in s_.body if isinstance(x, ast.AnnAssign) and isinstance(x.target, ast.Name) and x.value is not None}
            if fields:
                recs[s_.name] = (fields, defaults)
    if not recs:
        return
    parents = {}
    for n in ast.walk(fn):
        for ch in ast.iter_child_nodes(n):
            parents[id(ch)] = n
    cands = {}
    bad = set()
    keep_var = set()
    for n in ast.walk(fn):
        if isinstance(n, ast.Name):
            par = parents.get(id(n))
            if isinstance(n.ctx, ast.Store):
                ok = isinstance(par, (ast.Assign, ast.AnnAssign)) and (par.targets == [n] if isinstance(par, ast.Assign) else par.target is n) and isinstance(par.value, ast.Call) \
                    and isinstance(par.value.func, ast.Name) and par.value.func.id in recs and not any(isinstance(a, ast.Starred) for a in par.value.args) \
                    and all(k.arg is not None for k in par.value.keywords)
                is_none = isinstance(par, (ast.Assign, ast.AnnAssign)) and (par.targets == [n] if isinstance(par, ast.Assign) else par.target is n) \
                    and isinstance(par.value, ast.Constant) and par.value.value is None
                if ok:
                    cands.setdefault(n.id, set()).add(par.value.func.id)
                elif is_none or (isinstance(par, ast.AnnAssign) and par.value is None):
                    pass                    # `r = None` / a bare annotation: "no record"; the variable itself is kept for the None tests
                else:
                    bad.add(n.id)
            elif isinstance(n.ctx, ast.Load):
                none_test = isinstance(par, ast.Compare) and len(par.ops) == 1 and isinstance(par.ops[0], (ast.Is, ast.IsNot)) and par.left is n \
                    and isinstance(par.comparators[0], ast.Constant) and par.comparators[0].value is None
                if none_test:
                    keep_var.add(n.id)
                elif not (isinstance(par, ast.Attribute) and par.value is n and isinstance(par.ctx, ast.Load)):
                    bad.add(n.id)
            else:
                bad.add(n.id)
        elif isinstance(n, ast.arg):
            bad.add(n.arg)
    _records_in_containers(fn, recs, parents)
    todo = {v: next(iter(ks)) for v, ks in cands.items() if v not in bad and len(ks) == 1}
    for v, k in list(todo.items()):
        fields, defaults = recs[k]
        for n in ast.walk(fn):
            if isinstance(n, ast.Attribute) and isinstance(n.value, ast.Name) and n.value.id == v and n.attr not in fields:
                todo.pop(v, None)          # a method or a tuple attribute is used: leave the record alone
    if not todo:
        return

    class T(ast.NodeTransformer):
        def visit_Attribute(self, n):
            self.generic_visit(n)
            if isinstance(n.value, ast.Name) and n.value.id in todo and isinstance(n.ctx, ast.Load):
                return _loc(ast.Name(id=f"{n.value.id}__{n.attr}", ctx=ast.Load()), n)
            return n

        def _split(self, st, tgt, call):
            fields, defaults = recs[todo[tgt.id]]
            vals = dict(zip(fields, call.args))
            for kx in call.keywords:
                vals[kx.arg] = kx.value
            out = []
            for f_ in fields:
                v_ = vals.get(f_, defaults.get(f_))
                if v_ is None:
                    return None
                out.append(_loc(ast.Assign(targets=[ast.Name(id=f"{tgt.id}__{f_}", ctx=ast.Store())], value=self.visit(v_)), st))
            if tgt.id in keep_var:
                # the record variable survives only as the "is there a record" marker of its None tests
                out.append(_loc(ast.Assign(targets=[ast.Name(id=tgt.id, ctx=ast.Store())],
                                           value=ast.Call(func=call.func, args=[ast.Name(id=f"{tgt.id}__{f_}", ctx=ast.Load()) for f_ in fields], keywords=[])), st))
            return out

        def visit_Assign(self, n):
            if len(n.targets) == 1 and isinstance(n.targets[0], ast.Name) and n.targets[0].id in todo and isinstance(n.value, ast.Call):
                r = self._split(n, n.targets[0], n.value)
                if r is not None:
                    return r
            return self.generic_visit(n)

        def visit_AnnAssign(self, n):
            if isinstance(n.target, ast.Name) and n.target.id in todo and isinstance(n.value, ast.Call):
                r = self._split(n, n.target, n.value)
                if r is not None:
                    return r
            return self.generic_visit(n)
    T().visit(fn)


def _bound_once_before(fn, name, st):
    """`name` is bound exactly once in fn, by a plain assignment that is an earlier statement of the very block `st` is in (so it holds at st and ever after)"""
    n_st = sum(1 for x in ast.walk(fn) if isinstance(x, ast.Name) and x.id == name and isinstance(x.ctx, (ast.Store, ast.Del)))
    if n_st != 1:
        return False
    for node in ast.walk(fn):
        for f_ in ("body", "orelse", "finalbody"):
            blk = getattr(node, f_, None)
            if isinstance(blk, list) and any(x is st for x in blk):
                for prev in blk[: next(i for i, x in enumerate(blk) if x is st)]:
                    if isinstance(prev, ast.Assign) and len(prev.targets) == 1 and isinstance(prev.targets[0], ast.Name) and prev.targets[0].id == name:
                        return True
                return False
    return False


def _cond_funcs(fn):
    """N19: a function chosen by a condition - `if c: def f(x): return E  else: f = g` (or `f = A if c else B`) - with calls `f(a)`:
    the calls become `E[x:=a] if c else g(a)` when c is pure and not affected by stores of the function, the arguments are
    names/constants, and f is bound nowhere else."""
    from .sem import is_pure

    def blocks(node):
        for f_ in ("body", "orelse", "finalbody"):
            v = getattr(node, f_, None)
            if isinstance(v, list) and v and isinstance(v[0], ast.stmt):
                yield v
        for h in getattr(node, "handlers", []) or []:
            yield h.body

    def as_fref(stmts, name):
        """the function value bound to `name` by a one-statement branch: a lambda for a single-expression def, a plain reference for an alias"""
        if len(stmts) != 1:
            return None
        st = stmts[0]
        if isinstance(st, ast.FunctionDef) and st.name == name and not st.decorator_list:
            a = st.args
            e = _single_expr(st)
            if e is None or a.vararg or a.kwarg or a.kwonlyargs or a.defaults:
                return None
            return ast.Lambda(args=ast.arguments(posonlyargs=[], args=[ast.arg(arg=p.arg) for p in a.posonlyargs + a.args], kwonlyargs=[], kw_defaults=[], defaults=[]), body=e)
        if isinstance(st, ast.Assign) and len(st.targets) == 1 and isinstance(st.targets[0], ast.Name) and st.targets[0].id == name and isinstance(st.value, (ast.Name, ast.Attribute, ast.Lambda)):
            return st.value
        return None
    for node in list(ast.walk(fn)):
        if isinstance(node, (ast.ClassDef,)) or (isinstance(node, ast.FunctionDef) and node is not fn):
            continue
        for blk in blocks(node):
            for i, st in enumerate(blk):
                if isinstance(st, ast.If) and len(st.body) == 1 and len(st.orelse) == 1:
                    nm = st.body[0].name if isinstance(st.body[0], ast.FunctionDef) else (st.orelse[0].name if isinstance(st.orelse[0], ast.FunctionDef) else None)
                    if nm is None:
                        continue
                    a, b = as_fref(st.body, nm), as_fref(st.orelse, nm)
                    if a is not None and b is not None:
                        blk[i] = _loc(ast.Assign(targets=[ast.Name(id=nm, ctx=ast.Store())], value=ast.IfExp(test=st.test, body=a, orelse=b)), st)
    stores = {}
    for x in ast.walk(fn):
        if isinstance(x, ast.Name) and isinstance(x.ctx, (ast.Store, ast.Del)):
            stores[x.id] = stores.get(x.id, 0) + 1
        elif isinstance(x, (ast.FunctionDef, ast.ClassDef)) and x is not fn:
            stores[x.name] = stores.get(x.name, 0) + 1
    params = {a_.arg for a_ in ast.walk(fn.args) if isinstance(a_, ast.arg)}
    cands = {}
    for x in ast.walk(fn):
        if isinstance(x, ast.Assign) and len(x.targets) == 1 and isinstance(x.targets[0], ast.Name) and isinstance(x.value, ast.IfExp) and stores.get(x.targets[0].id) == 1 \
                and x.targets[0].id not in params and all(isinstance(v, (ast.Lambda, ast.Name, ast.Attribute)) for v in (x.value.body, x.value.orelse)) and is_pure(x.value.test) \
                and any(isinstance(v, ast.Lambda) for v in (x.value.body, x.value.orelse)) \
                and not any(isinstance(n_, ast.Name) and stores.get(n_.id) and not _bound_once_before(fn, n_.id, x) for n_ in ast.walk(x.value.test)):
            cands[x.targets[0].id] = x
    if not cands:
        return

    def apply(f, args):
        if isinstance(f, ast.Lambda):
            mp = {p.arg: (a.id if isinstance(a, ast.Name) else a) for p, a in zip(f.args.args, args)}
            return _Rename(mp).visit(copy.deepcopy(f.body))
        return ast.Call(func=copy.deepcopy(f), args=[copy.deepcopy(a) for a in args], keywords=[])

    class T(ast.NodeTransformer):
        def visit_Call(t, n):
            t.generic_visit(n)
            if isinstance(n.func, ast.Name) and n.func.id in cands and not n.keywords and all(isinstance(a, (ast.Name, ast.Constant)) for a in n.args):
                v = cands[n.func.id].value
                if all(not isinstance(f, ast.Lambda) or len(f.args.args) == len(n.args) for f in (v.body, v.orelse)):
                    return _loc(ast.IfExp(test=copy.deepcopy(v.test), body=apply(v.body, n.args), orelse=apply(v.orelse, n.args)), n)
            return n
    T().visit(fn)
    # the definition goes when nothing refers to the name any more
    for nm, st in cands.items():
        if not any(isinstance(x, ast.Name) and x.id == nm and isinstance(x.ctx, ast.Load) for x in ast.walk(fn)):
            for node in ast.walk(fn):
                for blk in blocks(node):
                    if st in blk:
                        blk[blk.index(st)] = _loc(ast.Pass(), st)


def _terminates(stmts) -> bool:
    return bool(stmts) and isinstance(stmts[-1], (ast.Return, ast.Raise, ast.Continue, ast.Break))


def _drop_else_after_terminator(stmts):
    """`if c: ...; return/raise  else: B`  ->  `if c: ...; return/raise` followed by B (any block, recursively)."""
    i = 0
    while i < len(stmts):
        s = stmts[i]
        for f in ("body", "orelse", "finalbody"):
            v = getattr(s, f, None)
            if isinstance(v, list) and v and isinstance(v[0], ast.stmt) and not isinstance(s, (ast.FunctionDef, ast.ClassDef)):
                _drop_else_after_terminator(v)
        if isinstance(s, ast.Try):
            for h in s.handlers:
                _drop_else_after_terminator(h.body)
        if isinstance(s, ast.If) and s.orelse and _terminates(s.body):
            tail = s.orelse
            s.orelse = []
            stmts[i + 1:i + 1] = tail
        i += 1


def _guard_clauses(fn):
    """N4 (flat canonical form): a trailing `if c: <body>` (no else) that ends a function body becomes the guard clause
    `if not c: return` followed by <body> at the function's top level; redundant `else` after return/raise is dropped."""
    if any(isinstance(x, (ast.Yield, ast.YieldFrom)) for s in fn.body for x in ast.walk(s) if not isinstance(x, ast.FunctionDef)):
        _drop_else_after_terminator(fn.body)
        return
    _drop_else_after_terminator(fn.body)
    while fn.body and isinstance(fn.body[-1], ast.If) and not fn.body[-1].orelse \
            and not any(isinstance(x, ast.Return) and x.value is not None for st in fn.body for x in ast.walk(st) if not isinstance(x, (ast.FunctionDef, ast.Lambda))):
        s = fn.body[-1]
        t = s.test
        neg = t.operand if isinstance(t, ast.UnaryOp) and isinstance(t.op, ast.Not) else ast.UnaryOp(op=ast.Not(), operand=t)
        guard = _loc(ast.If(test=neg, body=[_loc(ast.Return(value=None), s)], orelse=[]), s)
        fn.body = fn.body[:-1] + [guard] + s.body
        _drop_else_after_terminator(fn.body)


# ---------------------------------------------------------------------------------------------------------------

class _Rename(ast.NodeTransformer):
    def __init__(self, mapping):
        self.m = mapping

    def visit_Name(self, n):
        if n.id in self.m:
            r = self.m[n.id]
            if isinstance(r, str):
                n.id = r
                return n
            if isinstance(n.ctx, ast.Load):
                return _loc(copy.deepcopy(r), n)
        return n

    def visit_FunctionDef(self, n):
        # a nested def sees the enclosing names it does not bind itself (parameters, assigned names not declared nonlocal/global)
        own = {a.arg for a in ast.walk(n.args) if isinstance(a, ast.arg)}
        shared = set()
        for x in ast.walk(n):
            if isinstance(x, (ast.Nonlocal, ast.Global)):
                shared |= set(x.names)
        for x in ast.walk(n):
            if isinstance(x, ast.Name) and isinstance(x.ctx, (ast.Store, ast.Del)) and x.id not in shared:
                own.add(x.id)
        inner = {k: v for k, v in self.m.items() if k not in own}
        if inner:
            sub = _Rename(inner)
            n.body = [sub.visit(s_) for s_ in n.body]
            for x in ast.walk(n):
                if isinstance(x, (ast.Nonlocal, ast.Global)):
                    x.names = [inner[nm] if isinstance(inner.get(nm), str) else nm for nm in x.names]
        return n

    def visit_Lambda(self, n):
        own = {a.arg for a in ast.walk(n.args) if isinstance(a, ast.arg)}
        inner = {k: v for k, v in self.m.items() if k not in own}
        if inner:
            n.body = _Rename(inner).visit(n.body)
        return n


class _Beta(ast.NodeTransformer):
    """`(lambda x, y: E)(a, b)` -> E[x:=a, y:=b] for simple positional lambdas applied to names/constants/attribute chains."""

    def visit_Call(self, n):
        self.generic_visit(n)
        f = n.func
        if isinstance(f, ast.Lambda) and not n.keywords and not (f.args.vararg or f.args.kwarg or f.args.kwonlyargs or f.args.defaults) \
                and len(n.args) == len(f.args.posonlyargs + f.args.args) \
                and all(isinstance(a, (ast.Name, ast.Constant)) or (isinstance(a, ast.Attribute) and _pure_expr(a)) for a in n.args):
            mp = {p.arg: (a.id if isinstance(a, ast.Name) else a) for p, a in zip(f.args.posonlyargs + f.args.args, n.args)}
            return _loc(_Rename(mp).visit(copy.deepcopy(f.body)), n)
        return n


def _beta(node):
    return _Beta().visit(node)


def _used_once_in_order(expr, params, p) -> bool:
    """In expression `expr` every parameter of `params` is read at most once, at an unconditionally evaluated position (not under
    and/or/if-else/lambda/comprehension), nothing with a call precedes the reads, and the reads occur in parameter order - so replacing
    the parameters by the argument expressions evaluates those in the order the call did."""
    seq = []
    ok = [True]

    def go(e, cond):
        if isinstance(e, (ast.Lambda, ast.ListComp, ast.SetComp, ast.DictComp, ast.GeneratorExp)):
            if any(isinstance(x, ast.Name) and x.id in params for x in ast.walk(e)):
                ok[0] = False
            return
        if isinstance(e, ast.Name):
            if e.id in params:
                if cond:
                    ok[0] = False
                seq.append(e.id)
            return
        if isinstance(e, ast.BoolOp):
            for k, v in enumerate(e.values):
                go(v, cond or k > 0)
            return
        if isinstance(e, ast.IfExp):
            go(e.test, cond)
            go(e.body, True)
            go(e.orelse, True)
            return
        if isinstance(e, ast.Call):
            for ch in [e.func] + list(e.args) + [k.value for k in e.keywords]:
                go(ch, cond)
            seq.append("<call>")
            return
        for ch in ast.iter_child_nodes(e):
            if isinstance(ch, ast.expr):
                go(ch, cond)
    go(expr, False)
    if not ok[0] or seq.count(p) != 1:
        return False
    reads = [x for x in seq if x != "<call>"]
    if len(set(reads)) != len(reads):
        return False
    if "<call>" in seq[: max(i for i, x in enumerate(seq) if x in params) + 1]:
        return False
    order = [params.index(x) for x in reads]
    return order == sorted(order)


def _returns(body):
    """The `return` statements of a statement list itself (those of nested defs belong to them)."""
    out = []

    def go(n):
        if isinstance(n, (ast.FunctionDef, ast.AsyncFunctionDef, ast.Lambda, ast.ClassDef)):
            return
        if isinstance(n, ast.Return):
            out.append(n)
        for ch in ast.iter_child_nodes(n):
            go(ch)
    for s in body:
        go(s)
    return out


def _tail_returns_only(body) -> bool:
    """Every `return` of the callee is the last statement of the callee body or of a branch ending the body."""
    def tail(stmts):
        rs = set()
        if not stmts:
            return rs
        last = stmts[-1]
        if isinstance(last, ast.Return):
            rs.add(id(last))
        elif isinstance(last, ast.If):
            rs |= tail(last.body) | tail(last.orelse)
        elif isinstance(last, ast.Try):
            rs |= tail(last.body) | tail(last.orelse)
            for h in last.handlers:
                rs |= tail(h.body)
        elif isinstance(last, ast.With):
            rs |= tail(last.body)
        elif isinstance(last, (ast.For, ast.While)) and last.orelse:
            rs |= tail(last.orelse)
        return rs
    return {id(r) for r in _returns(body)} <= tail(body)


def _nest_guard_returns(stmts):
    """Continuation pushing: an `if` that returns on some path and is followed by more statements gets those statements appended to
    every branch that can complete normally (`if c: ...; return X` + rest -> `if c: ...; return X  else: rest`; a branch that falls
    through gets its own copy of the rest), in place and recursively, so that a callee written with early returns has all its returns in
    tail position."""
    i = 0
    while i < len(stmts):
        s = stmts[i]
        if isinstance(s, ast.If) and i + 1 < len(stmts) and _returns([s]):
            rest = stmts[i + 1:]
            del stmts[i + 1:]
            first = True
            for br in (s.body, s.orelse):
                if not _always_leaves(br):
                    br.extend(rest if first else copy.deepcopy(rest))
                    first = False
        i += 1
    for s in stmts:
        if isinstance(s, ast.If):
            _nest_guard_returns(s.body)
            if s.orelse:
                _nest_guard_returns(s.orelse)
        elif isinstance(s, (ast.For, ast.While)) and s.orelse:
            _nest_guard_returns(s.orelse)


def _replace_tail_returns(stmts, make):
    """Replace tail-position returns by make(value) statements (in place, recursively)."""
    if not stmts:
        return
    last = stmts[-1]
    if isinstance(last, ast.Return):
        rep = make(last)
        stmts[-1:] = rep
    elif isinstance(last, ast.If):
        _replace_tail_returns(last.body, make)
        _replace_tail_returns(last.orelse, make)
    elif isinstance(last, ast.Try):
        _replace_tail_returns(last.body, make)
        _replace_tail_returns(last.orelse, make)
        for h in last.handlers:
            _replace_tail_returns(h.body, make)
    elif isinstance(last, ast.With):
        _replace_tail_returns(last.body, make)
    elif isinstance(last, (ast.For, ast.While)) and last.orelse:
        _replace_tail_returns(last.orelse, make)


def _always_leaves(stmts) -> bool:
    if not stmts:
        return False
    last = stmts[-1]
    if isinstance(last, (ast.Return, ast.Raise, ast.Continue, ast.Break)):
        return True
    if isinstance(last, ast.If):
        return _always_leaves(last.body) and _always_leaves(last.orelse)
    if isinstance(last, ast.With):
        return _always_leaves(last.body)
    return False


def _loop_returns(stmts, make):
    """A search loop that returns from inside (`for x in it: if c: return A` ... `return B`), in a callee inlined as a statement:
    the inner returns become `<make(A)>; break` and everything after the loop moves into the loop's `else:` clause (which runs exactly
    when the loop was not left by `break`). Only for loops without breaks or an else of their own, returns not inside an inner loop."""
    for i, s in enumerate(stmts):
        if isinstance(s, ast.If):
            _loop_returns(s.body, make)
            _loop_returns(s.orelse, make)
        if not isinstance(s, (ast.For, ast.While)) or s.orelse:
            continue
        inner = []

        def scan(nodes, in_inner_loop):
            for n in nodes:
                if isinstance(n, (ast.FunctionDef, ast.Lambda, ast.ClassDef)):
                    continue
                if isinstance(n, ast.Return):
                    inner.append((n, in_inner_loop))
                elif isinstance(n, ast.Break) and not in_inner_loop:
                    inner.append((n, "break"))
                scan(list(ast.iter_child_nodes(n)), in_inner_loop or isinstance(n, (ast.For, ast.While)))
        scan(s.body, False)
        rets = [n for n, fl in inner if isinstance(n, ast.Return)]
        if not rets or any(fl for n, fl in inner):
            continue

        class T(ast.NodeTransformer):
            def visit_FunctionDef(t, n):
                return n
            visit_Lambda = visit_FunctionDef

            def visit_Return(t, n):
                return list(make(n)) + [_loc(ast.Break(), n)]
        s.body = [x for st in s.body for x in (lambda r: r if isinstance(r, list) else [r])(T().visit(st))]
        s.orelse = stmts[i + 1:] or [_loc(ast.Pass(), s)]
        del stmts[i + 1:]
        _loop_returns(s.orelse, make)
        break


def _still_called(fn, name) -> bool:
    return any(isinstance(n, ast.Name) and n.id == name and isinstance(n.ctx, ast.Load) for n in ast.walk(fn))


def _pure_expr(v) -> bool:
    from .sem import is_pure
    return is_pure(v)


def _why(line):
    if os.environ.get("TIV_INLINE_DEBUG") and line not in (504, 601, 604, 607, 621, 624):
        import sys
        print(f"[inline] rejected at normalize.py:{line}", file=sys.stderr)
    return None


class Inliner:
    def __init__(self, model, rel, owner_cls, stack=()):
        self.m, self.rel, self.cls, self.stack = model, rel, owner_cls, stack
        self.inlined: set[str] = set()

    def _resolve(self, call, closures):
        f = call.func
        name = None
        recv = None
        if isinstance(f, ast.Name) and f.id in getattr(self, "aliases", {}):
            f = self.aliases[f.id]               # `helper = self._helper` ... `helper(...)`
        if isinstance(f, ast.Name):
            name = f.id
            if name in closures:
                return closures[name], None, "closure"
            cand = self.m.files[self.rel].clean_funcs.get(name)
            if isinstance(cand, ast.FunctionDef):
                return cand, None, "module"
            imp = self.m.files[self.rel].imported.get(name)
            if imp is not None:
                # a helper imported from a sibling module (`from .common import _helper`): its body is taken from the defining module
                for drel in (imp[0] + ".py", imp[0] + "/__init__.py"):
                    if drel in self.m.files:
                        cand = self.m.files[drel].clean_funcs.get(imp[1])
                        if isinstance(cand, ast.FunctionDef):
                            cand._defrel = drel
                            return cand, None, "module"
            return _why(402)
        if isinstance(f, ast.Attribute):
            name = f.attr
            base = ast.unparse(f.value)
            # a class that did not exist in the baseline (a record/helper object extracted from a function): its class/static methods
            # called through the class, and its methods called on a local that only ever holds its instances
            k_ = self._artefact_classes().get(base) if isinstance(f.value, ast.Name) else None
            via_local = False
            if k_ is None and isinstance(f.value, ast.Name) and f.value.id in getattr(self, "rec_locals", {}):
                k_ = self._artefact_classes().get(self.rec_locals[f.value.id])
                via_local = True
            if k_ is not None:
                for s in k_.body:
                    if isinstance(s, ast.FunctionDef) and s.name == name:
                        kind = "static" if any(ast.unparse(d) == "staticmethod" for d in s.decorator_list) else (
                            "class" if any(ast.unparse(d) == "classmethod" for d in s.decorator_list) else "method")
                        if kind == "method" and not via_local:
                            return None
                        s._artefact_cls = True
                        s._defrel_cls = k_
                        return s, (f.value if kind != "class" or not via_local else ast.Name(id=k_.name, ctx=ast.Load())), kind
                return None
            if self.cls is not None and base in ("self", "cls", "type(self)", "__class__", self.cls.name, "new"):
                for s in self.cls.body:
                    if isinstance(s, ast.FunctionDef) and s.name == name:
                        kind = "static" if any(ast.unparse(d) == "staticmethod" for d in s.decorator_list) else (
                            "class" if any(ast.unparse(d) == "classmethod" for d in s.decorator_list) else "method")
                        return s, f.value, kind
                # a helper extracted into a base class (possibly in another module): looked up along the bases by simple name
                if base in ("self", "cls", "type(self)", "__class__"):
                    hit = self._inherited_method(name)
                    if hit is not None:
                        s, drel = hit
                        kind = "static" if any(ast.unparse(d) == "staticmethod" for d in s.decorator_list) else (
                            "class" if any(ast.unparse(d) == "classmethod" for d in s.decorator_list) else "method")
                        if drel != self.rel:
                            s._defrel = drel
                        return s, f.value, kind
        return _why(412)

    def _inherited_method(self, name, depth=4):
        """(def, defining file) of method `name` found in a base class of self.cls (bases named by a plain Name, resolved in this file or through
        `from .x import Base`), nearest first; only artefact methods are of interest, the caller checks that."""
        seen, todo = set(), [(self.cls, self.rel)]
        for _ in range(depth):
            nxt = []
            for cls, rel in todo:
                for b in cls.bases:
                    if not isinstance(b, ast.Name) or (b.id, rel) in seen:
                        continue
                    seen.add((b.id, rel))
                    f = self.m.files.get(rel)
                    k, krel = next((c for c in f.clean_tree.body if isinstance(c, ast.ClassDef) and c.name == b.id), None), rel
                    if k is None:
                        imp = f.imported.get(b.id)
                        if imp is not None:
                            for drel in (imp[0] + ".py", imp[0] + "/__init__.py"):
                                if drel in self.m.files:
                                    k = next((c for c in self.m.files[drel].clean_tree.body if isinstance(c, ast.ClassDef) and c.name == imp[1]), None)
                                    krel = drel
                                    if k is not None:
                                        break
                    if k is None:
                        continue
                    for s_ in k.body:
                        if isinstance(s_, ast.FunctionDef) and s_.name == name:
                            return s_, krel
                    nxt.append((k, krel))
            todo = nxt
        return None

    def _artefact_classes(self):
        f = self.m.files[self.rel]
        if not hasattr(f, "_artefact_classes"):
            f._artefact_classes = {c.name: c for c in f.clean_tree.body if isinstance(c, ast.ClassDef) and c.name not in baseline().get(self.rel, set())}
        return f._artefact_classes

    def _record_locals(self, fn):
        """{local: artefact class} for locals of fn whose every binding is `K(...)`, `K.<classmethod returning cls(...)>(...)` or None."""
        ks = self._artefact_classes()
        if not ks:
            return {}

        def makes(v):
            if isinstance(v, ast.Constant) and v.value is None:
                return "NONE"
            if isinstance(v, ast.Call) and isinstance(v.func, ast.Name) and v.func.id in ks:
                return v.func.id
            if isinstance(v, ast.Call) and isinstance(v.func, ast.Attribute) and isinstance(v.func.value, ast.Name) and v.func.value.id in ks:
                k = ks[v.func.value.id]
                mth = next((x for x in k.body if isinstance(x, ast.FunctionDef) and x.name == v.func.attr), None)
                if mth is not None and any(ast.unparse(d) == "classmethod" for d in mth.decorator_list):
                    rets = [r for r in ast.walk(mth) if isinstance(r, ast.Return)]
                    c0 = mth.args.args[0].arg if mth.args.args else "cls"
                    if rets and all(isinstance(r.value, ast.Call) and isinstance(r.value.func, ast.Name) and r.value.func.id in (c0, k.name) for r in rets):
                        return k.name
            return None
        kinds = {}
        for n in ast.walk(fn):
            tgt = val = None
            if isinstance(n, ast.Assign) and len(n.targets) == 1 and isinstance(n.targets[0], ast.Name):
                tgt, val = n.targets[0].id, n.value
            elif isinstance(n, ast.AnnAssign) and isinstance(n.target, ast.Name) and n.value is not None:
                tgt, val = n.target.id, n.value
            elif isinstance(n, ast.Name) and isinstance(n.ctx, ast.Store):
                kinds.setdefault(n.id, set())
                continue
            if tgt is not None:
                kinds.setdefault(tgt, set()).add(makes(val))
        out = {}
        stores = {}
        for n in ast.walk(fn):
            if isinstance(n, ast.Name) and isinstance(n.ctx, ast.Store):
                stores[n.id] = stores.get(n.id, 0) + 1
        plain = {}
        for n in ast.walk(fn):
            if isinstance(n, ast.Assign) and len(n.targets) == 1 and isinstance(n.targets[0], ast.Name):
                plain[n.targets[0].id] = plain.get(n.targets[0].id, 0) + 1
            elif isinstance(n, ast.AnnAssign) and isinstance(n.target, ast.Name) and n.value is not None:
                plain[n.target.id] = plain.get(n.target.id, 0) + 1
        for v, ks_ in kinds.items():
            real = ks_ - {"NONE"}
            if len(real) == 1 and None not in ks_ and stores.get(v, 0) == plain.get(v, 0):
                out[v] = next(iter(real))
        return out

    def _bind(self, callee, call, recv, kind, expr_mode=False, expr_body=None):
        """-> (prefix assignments, rename mapping) or None if the call cannot be bound simply."""
        a = callee.args
        if a.vararg or a.kwarg or a.posonlyargs and False:
            return _why(418)
        params = [p.arg for p in a.posonlyargs + a.args]
        defaults = dict(zip(params[len(params) - len(a.defaults):], a.defaults)) if a.defaults else {}
        kwonly = [p.arg for p in a.kwonlyargs]
        kwdef = {p.arg: d for p, d in zip(a.kwonlyargs, a.kw_defaults) if d is not None}
        vals = {}
        pos = list(call.args)
        if any(isinstance(x, ast.Starred) for x in pos) or any(k.arg is None for k in call.keywords):
            return _why(426)
        plist = list(params)
        if kind in ("method", "class") and plist:
            first = plist.pop(0)
            if kind == "method":
                vals[first] = recv
            else:
                vals[first] = recv if ast.unparse(recv) in ("cls",) else ast.Call(func=ast.Name(id="type", ctx=ast.Load()), args=[recv], keywords=[]) if ast.unparse(recv) == "self" else recv
        if len(pos) > len(plist):
            return _why(435)
        for p, v in zip(plist, pos):
            vals[p] = v
        for k in call.keywords:
            if k.arg in vals or k.arg not in plist + kwonly:
                return _why(440)
            vals[k.arg] = k.value
        for p in plist + kwonly:
            if p not in vals:
                d = defaults.get(p, kwdef.get(p))
                if d is None:
                    return _why(446)
                vals[p] = d
        prefix, mapping = [], {}
        assigned = {t.id for s in callee.body for n in ast.walk(s) for t in ([n.target] if isinstance(n, (ast.AugAssign, ast.AnnAssign, ast.For)) else getattr(n, "targets", []))
                    if isinstance(t, ast.Name)} if True else set()
        for p, v in vals.items():
            if isinstance(v, ast.Name) and p not in assigned:
                mapping[p] = v.id
            elif isinstance(v, (ast.Constant, ast.Attribute)) and p not in assigned and not any(isinstance(x, ast.Call) for x in ast.walk(v)):
                mapping[p] = v
            elif isinstance(v, ast.Lambda) and p not in assigned:
                mapping[p] = v                      # a function literal passed as an argument: its call sites are beta-reduced (_beta)
            elif expr_mode and p not in assigned and _pure_expr(v):
                mapping[p] = v                      # a pure argument can be substituted wherever the parameter is read
            elif expr_mode and p not in assigned and expr_body is not None and _used_once_in_order(expr_body, list(vals), p):
                mapping[p] = v                      # an argument with calls: substituted when the parameter is read exactly once, unconditionally,
                #                                     and the parameters are read in the order the arguments were evaluated
            else:
                prefix.append(_loc(ast.Assign(targets=[ast.Name(id=p, ctx=ast.Store())], value=copy.deepcopy(v)), call))
        return prefix, mapping

    def _body_of(self, callee, call, recv, kind, keep_names=()):
        if callee.name in self.stack or len(self.stack) >= 3:
            return _why(466)
        def _own_level(stmts):
            for s_ in stmts:
                if isinstance(s_, (ast.FunctionDef, ast.AsyncFunctionDef, ast.ClassDef)):
                    continue
                yield s_
                for f_ in ("body", "orelse", "finalbody"):
                    v_ = getattr(s_, f_, None)
                    if isinstance(v_, list) and v_ and isinstance(v_[0], ast.stmt):
                        yield from _own_level(v_)
                for h_ in getattr(s_, "handlers", []) or []:
                    yield from _own_level(h_.body)
        # (a `nonlocal` inside a nested def of the callee names the callee's own locals, which move into the caller with it)
        if any(isinstance(x, ast.Nonlocal) for x in _own_level(callee.body)) and kind != "closure":
            return _why(468)
        if any(isinstance(x, (ast.Yield, ast.YieldFrom)) for s in callee.body for x in ast.walk(s)):
            return _why(470)
        b = self._bind(callee, call, recv, kind)
        if b is None:
            return _why(473)
        prefix, mapping = b
        body = [copy.deepcopy(s) for s in callee.body if not (isinstance(s, ast.Expr) and isinstance(s.value, ast.Constant) and isinstance(s.value.value, str))]
        body = [s for s in body if not isinstance(s, (ast.Nonlocal,))]
        # no variable capture: names the callee binds itself (its own locals, parameters bound by a prefix assignment) that also occur in
        # the caller are given fresh names; names a closure declares nonlocal/global are the caller's variables and stay
        shared = {n_ for s_ in callee.body for g_ in ast.walk(s_) if isinstance(g_, (ast.Nonlocal, ast.Global)) for n_ in g_.names}
        own = set()
        for s_ in prefix + body:
            for x in ast.walk(s_):
                if isinstance(x, ast.Name) and isinstance(x.ctx, (ast.Store, ast.Del)):
                    own.add(x.id)
        own -= shared
        root = getattr(self, "root", None)
        if root is not None and own:
            inside = {id(x) for x in ast.walk(callee)}        # a closure's own text is not the caller's
            caller_nodes = [x for x in ast.walk(root) if id(x) not in inside]
            caller_names = {x.id for x in caller_nodes if isinstance(x, ast.Name)} | {a_.arg for a_ in caller_nodes if isinstance(a_, ast.arg)}
            # the prefix values are caller expressions: evaluate them before renaming can touch them
            # a name the call's result is assigned to is overwritten by the call anyway: the callee may use it as its own
            clash = {n_ for n_ in own if n_ in caller_names and n_ not in keep_names}

            pnames = {a_.arg for a_ in ast.walk(callee.args) if isinstance(a_, ast.arg) and mapping.get(a_.arg) != a_.arg}     # (`self` bound to `self` is the same name)

            def sole_binding(tree_stmts, name):
                b_ = [x for s_ in tree_stmts for x in ast.walk(s_) if id(x) not in inside and isinstance(x, (ast.Assign, ast.AnnAssign, ast.AugAssign, ast.For, ast.With, ast.NamedExpr))
                      and any(isinstance(t_, ast.Name) and t_.id == name and isinstance(t_.ctx, ast.Store) for t_ in ast.walk(x) if not isinstance(t_, ast.Load))]
                if len(b_) == 1 and isinstance(b_[0], ast.Assign) and len(b_[0].targets) == 1 and isinstance(b_[0].targets[0], ast.Name) \
                        and all(isinstance(x, (ast.Name, ast.Attribute, ast.Constant, ast.Load)) for x in ast.walk(b_[0].value)) \
                        and not any(isinstance(x, ast.Name) and x.id in pnames for x in ast.walk(b_[0].value)):
                    return ast.unparse(b_[0].value)      # only plain reads (`image = self._image`), never calls, never the callee's parameters
                return _why(504)
            # re-executing the caller's own (sole) definition of a name is harmless: `image = self._image` in both
            # ... provided what it reads cannot change in between: no name or attribute it mentions is stored anywhere in the caller
            stored_names = {x.id for x in caller_nodes if isinstance(x, ast.Name) and isinstance(x.ctx, (ast.Store, ast.Del))}
            stored_attrs = {ast.unparse(x) for x in caller_nodes if isinstance(x, ast.Attribute) and isinstance(x.ctx, (ast.Store, ast.Del))}

            def stable(src):
                e_ = ast.parse(src, mode="eval").body
                return not any((isinstance(x, ast.Name) and x.id in stored_names) or (isinstance(x, ast.Attribute) and ast.unparse(x) in stored_attrs) for x in ast.walk(e_))
            same_def = {n_ for n_ in clash if sole_binding(body, n_) is not None and sole_binding(root.body, n_) == sole_binding(body, n_) and stable(sole_binding(body, n_))}
            clash -= same_def
            if same_def:
                # ... and redundant: the callee's copy of the definition is dropped
                body = [s_ for s_ in body if not (isinstance(s_, ast.Assign) and len(s_.targets) == 1 and isinstance(s_.targets[0], ast.Name) and s_.targets[0].id in same_def)] or [ast.Pass()]
            if clash:
                Inliner._fresh = getattr(Inliner, "_fresh", 0) + 1
                ren = {n_: f"{n_}__i{Inliner._fresh}" for n_ in clash}
                new_prefix = []
                for s_ in prefix:
                    # rename only the target of a prefix assignment (its value belongs to the caller)
                    if isinstance(s_, ast.Assign) and isinstance(s_.targets[0], ast.Name) and s_.targets[0].id in ren:
                        s_ = ast.Assign(targets=[ast.Name(id=ren[s_.targets[0].id], ctx=ast.Store())], value=s_.value, lineno=getattr(s_, "lineno", 0), col_offset=0)
                    new_prefix.append(s_)
                prefix = new_prefix
                rn2 = _Rename(ren)
                body = [rn2.visit(s_) for s_ in body]
        if mapping:
            # parameters replaced by the caller's argument expressions only now: the renaming above never touches the caller's names
            rn = _Rename(mapping)
            body = [_beta(rn.visit(s)) for s in body]
        inner = Inliner(self.m, getattr(callee, "_defrel", self.rel), self.cls if not hasattr(callee, "_defrel") else None, self.stack + (callee.name,))
        inner.root = getattr(self, "root", None)
        wrapper = ast.FunctionDef(name=callee.name, args=callee.args, body=prefix + body, decorator_list=[], lineno=callee.lineno, col_offset=0)
        inner.run(wrapper, outer=getattr(self, "closures", None))
        self.inlined |= inner.inlined
        return wrapper.body

    def run(self, fn, outer=None):
        closures = {k: v for k, v in (outer or {}).items() if v is not fn}

        def collect(stmts):
            for s in stmts:
                if isinstance(s, ast.FunctionDef):
                    if is_artefact(self.rel, s, nested=True):
                        closures[s.name] = s
                    continue
                if isinstance(s, ast.ClassDef):
                    continue
                for f in ("body", "orelse", "finalbody"):
                    v = getattr(s, f, None)
                    if isinstance(v, list) and v and isinstance(v[0], ast.stmt):
                        collect(v)
                for h in getattr(s, "handlers", []) or []:
                    collect(h.body)
        collect(fn.body)
        # a name that is bound in any other way as well (`if fill: def blank(..) ... else: blank = cursor_forward`, two defs, a parameter) does
        # not denote one function: calls through it are left alone
        bound_otherwise = {x.id for x in ast.walk(fn) if isinstance(x, ast.Name) and isinstance(x.ctx, (ast.Store, ast.Del))} | {a_.arg for a_ in ast.walk(fn.args) if isinstance(a_, ast.arg)}
        ndefs = {}
        for x in ast.walk(fn):
            if isinstance(x, (ast.FunctionDef, ast.AsyncFunctionDef, ast.ClassDef)) and x is not fn:
                ndefs[x.name] = ndefs.get(x.name, 0) + 1
        for nm_ in list(closures):
            if closures[nm_] in (outer or {}).values():
                continue            # handed in from the enclosing scope
            if nm_ in bound_otherwise or ndefs.get(nm_, 0) > 1:
                del closures[nm_]
        self.closures = closures
        if getattr(self, "root", None) is None:
            self.root = fn
            self.rec_locals = self._record_locals(fn)
        # local aliases of methods: `helper = self._helper`, bound once
        self.aliases = {}
        cnt = {}
        for n in ast.walk(fn):
            if isinstance(n, ast.Assign) and len(n.targets) == 1 and isinstance(n.targets[0], ast.Name):
                cnt[n.targets[0].id] = cnt.get(n.targets[0].id, 0) + 1
                if isinstance(n.value, ast.Attribute) and isinstance(n.value.value, ast.Name) and n.value.value.id in ("self", "cls"):
                    self.aliases[n.targets[0].id] = n.value
        self.aliases = {k: v for k, v in self.aliases.items() if cnt.get(k) == 1}
        self._stmts(fn.body, closures, top=True)
        if closures:
            def prune(stmts):
                stmts[:] = [s for s in stmts if not (isinstance(s, ast.FunctionDef) and s.name in closures and s.name in self.inlined and not _still_called(fn, s.name))] or [ast.Pass()]
                for s in stmts:
                    if isinstance(s, (ast.FunctionDef, ast.ClassDef)):
                        continue
                    for f in ("body", "orelse", "finalbody"):
                        v = getattr(s, f, None)
                        if isinstance(v, list) and v and isinstance(v[0], ast.stmt):
                            prune(v)
                    for h in getattr(s, "handlers", []) or []:
                        prune(h.body)
            prune(fn.body)
        return fn

    def _stmts(self, stmts, closures, top=False):
        i = 0
        while i < len(stmts):
            s = stmts[i]
            rep = self._stmt(s, closures)
            if rep is not None:
                stmts[i:i + 1] = rep
                i += len(rep)
                continue
            pre = self._hoist(s, closures)
            if pre is not None:
                stmts[i:i] = pre          # `tmp = helper()` inlined in front of the statement that used the call inside an expression
                i += len(pre)
                continue                  # (the statement itself is looked at again: it may hold further calls)
            for f in ("body", "orelse", "finalbody"):
                v = getattr(s, f, None)
                if isinstance(v, list) and v and isinstance(v[0], ast.stmt) and not isinstance(s, (ast.FunctionDef, ast.ClassDef)):
                    self._stmts(v, closures)
            if isinstance(s, ast.Try):
                for h in s.handlers:
                    self._stmts(h.body, closures)
            self._exprs(s, closures)
            i += 1

    _PURE_FUNCS = {"len", "isinstance", "bool", "int", "str", "tuple", "list", "set", "dict", "min", "max", "abs", "round", "type", "getattr", "hasattr", "map", "zip", "range",
                   "enumerate", "sorted", "reversed", "any", "all", "sum", "repr", "id", "callable", "issubclass", "frozenset", "float", "divmod"}

    def _hoist(self, s, closures):
        """A multi-statement artefact helper called inside the expression of a simple statement (`if not helper():`, `x = a + helper()`,
        `return helper() or y`), at a position that is evaluated unconditionally and before anything with side effects: the call is
        replaced by a fresh temporary and `tmp = helper()` is inlined in front of the statement. -> the inlined statements, or None."""
        if isinstance(s, ast.If):
            field = "test"
        elif isinstance(s, (ast.Assign, ast.AugAssign, ast.AnnAssign, ast.Return, ast.Expr)) and getattr(s, "value", None) is not None:
            field = "value"
        else:
            return None
        root = getattr(s, field)
        found = []

        def order(e, cond):
            """(node, conditional?) for every Call in evaluation order; stops descending at lambdas/comprehensions."""
            if isinstance(e, (ast.Lambda, ast.ListComp, ast.SetComp, ast.DictComp, ast.GeneratorExp)):
                yield e, True
                return
            if isinstance(e, ast.BoolOp):
                for k, v in enumerate(e.values):
                    yield from order(v, cond or k > 0)
                return
            if isinstance(e, ast.IfExp):
                yield from order(e.test, cond)
                yield from order(e.body, True)
                yield from order(e.orelse, True)
                return
            if isinstance(e, ast.Compare):
                yield from order(e.left, cond)
                for k, v in enumerate(e.comparators):
                    yield from order(v, cond or k > 0)
                return
            for ch in ast.iter_child_nodes(e):
                if isinstance(ch, ast.expr):
                    yield from order(ch, cond)
                elif isinstance(ch, ast.keyword):
                    yield from order(ch.value, cond)
            if isinstance(e, ast.Call):
                yield e, cond
        for n, cond in order(root, False):
            if isinstance(n, ast.Call):
                c = self._candidate(n, closures)
                if c is not None and not cond and (n is not root or field == "test") and _single_expr(c[0]) is None:
                    found.append((n, c))
                    break
                fnm = n.func.id if isinstance(n.func, ast.Name) else (n.func.attr if isinstance(n.func, ast.Attribute) else None)
                if not (isinstance(n.func, ast.Name) and fnm in self._PURE_FUNCS):
                    return None         # something with possible side effects is evaluated first: the order would change
            else:
                continue               # a lambda/comprehension: not evaluated here
        if not found:
            return None
        call, (callee, recv, kind) = found[0]
        Inliner._fresh = getattr(Inliner, "_fresh", 0) + 1
        tmp = f"{callee.name.strip('_')}__h{Inliner._fresh}"
        assign = _loc(ast.Assign(targets=[ast.Name(id=tmp, ctx=ast.Store())], value=call), s)
        rep = self._stmt(assign, closures)
        if rep is None:
            return None

        class R(ast.NodeTransformer):
            def visit_Call(t, n):
                if n is call:
                    return _loc(ast.Name(id=tmp, ctx=ast.Load()), n)
                return t.generic_visit(n)
        setattr(s, field, R().visit(root))
        return rep

    def _candidate(self, call, closures):
        if not isinstance(call, ast.Call):
            return _why(601)
        r = self._resolve(call, closures)
        if r is None:
            return _why(604)
        callee, recv, kind = r
        if not getattr(callee, "_artefact_cls", False) and not is_artefact(getattr(callee, "_defrel", self.rel), callee, nested=(kind == "closure")):
            return _why(607)
        if any(ast.unparse(d).split(".")[-1] not in ("staticmethod", "classmethod", "no_type_check", "override", "final") for d in callee.decorator_list):
            return _why(609)
        return callee, recv, kind

    def _stmt(self, s, closures):
        call, mode = None, None
        if isinstance(s, ast.Expr) and isinstance(s.value, ast.Call):
            call, mode = s.value, "stmt"
        elif isinstance(s, ast.Assign) and isinstance(s.value, ast.Call) and len(s.targets) == 1:
            call, mode = s.value, "assign"
        elif isinstance(s, ast.Return) and isinstance(s.value, ast.Call):
            call, mode = s.value, "return"
        if call is None:
            return _why(621)
        c = self._candidate(call, closures)
        if c is None:
            return _why(624)
        callee, recv, kind = c
        # names the call's result is assigned to (overwritten anyway): plain name targets only - `obj.attr = helper()` READS obj
        def _tnames(t_):
            if isinstance(t_, ast.Name):
                return {t_.id}
            if isinstance(t_, (ast.Tuple, ast.List)):
                return set().union(*[_tnames(e_) for e_ in t_.elts]) if t_.elts else set()
            if isinstance(t_, ast.Starred):
                return _tnames(t_.value)
            return set()
        keep_names = set().union(*[_tnames(t_) for t_ in s.targets]) if mode == "assign" else set()
        body = self._body_of(callee, call, recv, kind, keep_names)
        if body is None:
            return _why(629)
        rets = _returns(body)
        if mode != "return" and rets and not _tail_returns_only(body):
            if mode == "assign":
                _tg = s.targets[0]
                _loop_returns(body, lambda r: [_loc(ast.Assign(targets=[copy.deepcopy(_tg)], value=r.value if r.value is not None else ast.Constant(value=None)), r)])
            else:
                _loop_returns(body, lambda r: ([_loc(ast.Expr(value=r.value), r)] if r.value is not None and not isinstance(r.value, (ast.Constant, ast.Name)) else []))
            _nest_guard_returns(body)
            rets = _returns(body)
        if mode == "return":
            # every `return` of the callee simply becomes a return of the caller, wherever it stands
            if not rets or not isinstance(body[-1], (ast.Return, ast.If, ast.Try, ast.With)):
                body = body + [_loc(ast.Return(value=ast.Constant(value=None)), s)]
        elif mode == "stmt":
            if rets and not _tail_returns_only(body):
                return _why(639)
            _replace_tail_returns(body, lambda r: ([_loc(ast.Expr(value=r.value), r)] if r.value is not None and not isinstance(r.value, (ast.Constant, ast.Name)) else [_loc(ast.Pass(), r)]))
        else:  # assign
            if not rets or not _tail_returns_only(body):
                return _why(643)
            tgt = s.targets[0]

            def mk(r):
                v = r.value if r.value is not None else ast.Constant(value=None)
                if ast.unparse(v) == ast.unparse(tgt):
                    return [_loc(ast.Pass(), r)]      # `x = x`
                return [_loc(ast.Assign(targets=[copy.deepcopy(tgt)], value=v), r)]
            _replace_tail_returns(body, mk)
        self.inlined.add(callee.name)
        return body or [_loc(ast.Pass(), s)]

    def _exprs(self, s, closures):
        """Expression-level inlining of single-`return e` artefacts."""
        class T(ast.NodeTransformer):
            def visit_FunctionDef(t, n):
                return n

            # (lambda bodies are visited: a helper called inside a lambda - e.g. a property getter - is replaced by its expression there)

            def visit_Call(t, n):
                t.generic_visit(n)
                # a single-expression artefact helper passed as a function value (`map(helper, a, b)`): the equivalent lambda
                for i_, a_ in enumerate(n.args):
                    if isinstance(a_, ast.Name) and isinstance(a_.ctx, ast.Load):
                        c_ = self._candidate(ast.Call(func=a_, args=[], keywords=[]), closures)
                        if c_ is not None and c_[2] in ("closure", "module"):
                            ar = c_[0].args
                            e_ = _single_expr(c_[0])
                            if e_ is not None and not (ar.vararg or ar.kwarg or ar.kwonlyargs or ar.defaults):
                                la = ast.arguments(posonlyargs=[], args=[ast.arg(arg=p_.arg) for p_ in ar.posonlyargs + ar.args], kwonlyargs=[], kw_defaults=[], defaults=[])
                                n.args[i_] = _loc(ast.Lambda(args=la, body=copy.deepcopy(e_)), a_)
                                self.inlined.add(c_[0].name)
                c = self._candidate(n, closures)
                if c is None:
                    return n
                callee, recv, kind = c
                e = _single_expr(callee)
                if e is None:
                    return n
                b = self._bind(callee, n, recv, kind, expr_mode=True, expr_body=e)
                if b is None or b[0]:
                    return n
                e = copy.deepcopy(e)
                if isinstance(e, ast.Lambda):
                    # a factory's result: its parameters are substituted inside the lambda body (the lambda's own parameters shadow)
                    own_ = {a_.arg for a_ in e.args.args}
                    e.body = _Rename({k_: v_ for k_, v_ in b[1].items() if k_ not in own_}).visit(e.body)
                else:
                    e = _Rename(b[1]).visit(e)
                self.inlined.add(callee.name)
                return _loc(e, n)
        for f, v in ast.iter_fields(s):
            if f in ("body", "orelse", "finalbody", "handlers"):
                continue
            if isinstance(v, ast.AST):
                setattr(s, f, T().visit(v))
            elif isinstance(v, list):
                setattr(s, f, [T().visit(x) if isinstance(x, ast.AST) else x for x in v])


def _single_expr(callee):
    """The expression a helper returns when it is, after canonicalisation, `return E` (possibly after pure local definitions, which are
    substituted), else None."""
    c = _Canon().visit(copy.deepcopy(callee))
    _guard_clauses(c)
    c = _Canon().visit(c)
    real = [x for x in c.body if not (isinstance(x, ast.Expr) and isinstance(x.value, ast.Constant))]
    # a factory: `def inner(params): return E` + `return inner`  ==  `lambda params: E` (the factory's own parameters are free in E)
    if len(real) == 2 and isinstance(real[0], ast.FunctionDef) and isinstance(real[1], ast.Return) and isinstance(real[1].value, ast.Name) and real[1].value.id == real[0].name \
            and not real[0].decorator_list:
        inner = real[0]
        ia = inner.args
        ie = _single_expr(inner)
        if ie is not None and not (ia.vararg or ia.kwarg or ia.kwonlyargs or ia.defaults):
            return ast.Lambda(args=ast.arguments(posonlyargs=[], args=[ast.arg(arg=p_.arg) for p_ in ia.posonlyargs + ia.args], kwonlyargs=[], kw_defaults=[], defaults=[]), body=ie)
    # `try: return A  except E: return B`  ==  `B if __raised__(E) else A` (an opaque test: which of the two happens is not known statically)
    if len(real) == 1 and isinstance(real[0], ast.Try) and not real[0].orelse and not real[0].finalbody and len(real[0].body) == 1 and isinstance(real[0].body[0], ast.Return) \
            and real[0].body[0].value is not None and real[0].handlers and all(len(h.body) == 1 and isinstance(h.body[0], ast.Return) and h.body[0].value is not None and h.name is None for h in real[0].handlers):
        e_ = real[0].body[0].value
        for h in reversed(real[0].handlers):
            e_ = ast.IfExp(test=ast.Call(func=ast.Name(id="__raised__", ctx=ast.Load()), args=[h.type] if h.type is not None else [], keywords=[]), body=h.body[0].value, orelse=e_)
        return e_
    if len(real) > 1 and isinstance(real[-1], ast.Return) and real[-1].value is not None and all(
            isinstance(x, (ast.Assign, ast.AnnAssign)) and (isinstance(x.targets[0] if isinstance(x, ast.Assign) else x.target, ast.Name) or (
                isinstance(x, ast.Assign) and len(x.targets) == 1 and isinstance(x.targets[0], ast.Tuple) and all(isinstance(t_, ast.Name) for t_ in x.targets[0].elts))) for x in real[:-1]):
        from .sem import expand as _expand, is_pure
        if all(is_pure(x.value) for x in real[:-1] if getattr(x, "value", None) is not None):
            ast.fix_missing_locations(c)
            real = [ast.Return(value=_expand(c, real[-1].value))]
    if len(real) != 1 or not isinstance(real[0], ast.Return) or real[0].value is None:
        # straight-line definitions with conditional re-definitions, then `return E`: the value of E as one expression (backward value slice,
        # if/else merged into conditional expressions) - accepted when no call of the body is duplicated by the substitution
        def simple(stmts):
            for x in stmts:
                if isinstance(x, (ast.Assign, ast.AnnAssign)):
                    tg = x.targets[0] if isinstance(x, ast.Assign) and len(x.targets) == 1 else (x.target if isinstance(x, ast.AnnAssign) else None)
                    if not isinstance(tg, ast.Name):
                        return False
                elif isinstance(x, ast.If):
                    if not (simple(x.body) and simple(x.orelse)):
                        return False
                elif not isinstance(x, ast.Pass):
                    return False
            return True
        if len(real) >= 2 and isinstance(real[-1], ast.Return) and real[-1].value is not None and simple(real[:-1]):
            from .sem import trace as _trace_
            from collections import Counter
            ast.fix_missing_locations(c)
            for n_ in ast.walk(c):
                for ch in ast.iter_child_nodes(n_):
                    ch._p = n_
            c._p = None
            k_ = 0
            for st_ in ast.walk(c):
                if isinstance(st_, ast.stmt):
                    k_ += 1
            def number(stmts, ctr=[0]):
                for st_ in stmts:
                    ctr[0] += 1
                    for x_ in ast.walk(st_):
                        if hasattr(x_, "lineno") and not isinstance(x_, ast.stmt):
                            x_.lineno = ctr[0]
                    st_.lineno = ctr[0]
                    for f_ in ("body", "orelse"):
                        v_ = getattr(st_, f_, None)
                        if isinstance(v_, list) and v_ and isinstance(v_[0], ast.stmt):
                            number(v_, ctr)
            number(c.body)
            e_ = _trace_(c, real[-1].value)
            params = {a_.arg for a_ in ast.walk(c.args) if isinstance(a_, ast.arg)}
            local_names = {x.id for x in ast.walk(c) if isinstance(x, ast.Name) and isinstance(x.ctx, ast.Store)}
            left = {x.id for x in ast.walk(e_) if isinstance(x, ast.Name)} & (local_names - params)
            orig = Counter(ast.unparse(x.func) for s_ in real for x in ast.walk(s_) if isinstance(x, ast.Call))
            new_ = Counter(ast.unparse(x.func) for x in ast.walk(e_) if isinstance(x, ast.Call))
            if not left and all(new_[k] <= orig.get(k, 0) for k in new_) and not any(x.id.endswith("__0") for x in ast.walk(e_) if isinstance(x, ast.Name)):
                for x in ast.walk(e_):
                    if hasattr(x, "_p"):
                        try:
                            del x._p
                        except AttributeError:
                            pass
                return e_
        return None
    return real[0].value


def baseline_globals():
    p = os.path.join(os.path.dirname(os.path.abspath(__file__)), "baseline_defs.json")
    return {rel: set(v) for rel, v in json.load(open(p)).get("globals", {}).items()}


def substitute_new_constants(rel, tree):
    """N21: a private module-level name bound exactly once, at module level, to a constant expression (literals, arithmetic / concatenation of
    literals and of other such names) that did not exist in the baseline is a value that was merely given a name: its uses are replaced by
    the expression (in place). Names that are rebound anywhere, declared global, or not private are left alone."""
    base = baseline_globals().get(rel)
    if base is None:
        return set()
    cands = {}
    counts = {}
    for st in tree.body:
        tg = st.targets[0] if isinstance(st, ast.Assign) and len(st.targets) == 1 else (st.target if isinstance(st, ast.AnnAssign) and st.value is not None else None)
        if isinstance(tg, ast.Name):
            cands[tg.id] = st.value
    for x in ast.walk(tree):
        if isinstance(x, ast.Name) and isinstance(x.ctx, (ast.Store, ast.Del)):
            counts[x.id] = counts.get(x.id, 0) + 1
        elif isinstance(x, (ast.Global, ast.Nonlocal)):
            for n_ in x.names:
                counts[n_] = counts.get(n_, 0) + 2
        elif isinstance(x, ast.arg):
            counts[x.arg] = counts.get(x.arg, 0) + 2          # shadowed somewhere: leave alone

    def const(e, depth=0):
        if depth > 6:
            return False
        if isinstance(e, ast.Constant):
            return not isinstance(e.value, type(Ellipsis))
        if isinstance(e, ast.UnaryOp) and isinstance(e.op, (ast.USub, ast.UAdd, ast.Invert)):
            return const(e.operand, depth + 1)
        if isinstance(e, ast.BinOp) and isinstance(e.op, (ast.Add, ast.Sub, ast.Mult, ast.Pow, ast.LShift, ast.FloorDiv, ast.Mod)):
            return const(e.left, depth + 1) and const(e.right, depth + 1)
        if isinstance(e, ast.Tuple):
            return all(const(x, depth + 1) for x in e.elts)
        if isinstance(e, ast.Name):
            return e.id in new
        return False
    new = {}
    for _ in range(4):
        for nm, v in cands.items():
            if nm in new or nm in base or not nm.startswith("_") or nm.startswith("__") or counts.get(nm, 0) != 1:
                continue
            if const(v):
                new[nm] = v
    if not new:
        return set()
    # resolve references between the new constants first
    for _ in range(4):
        for nm in list(new):
            new[nm] = _Rename({k: v for k, v in new.items() if k != nm}).visit(copy.deepcopy(new[nm]))
    ren = _Rename(dict(new))
    tree.body = [st if (isinstance(st, (ast.Assign, ast.AnnAssign)) and isinstance(getattr(st, "targets", [getattr(st, "target", None)])[0], ast.Name)
                        and getattr(st, "targets", [getattr(st, "target", None)])[0].id in new) else ren.visit(st) for st in tree.body]
    return set(new)


def normalize_function(model, rel, fn, owner_cls=None):
    """-> (normalised deep copy of fn, set of artefact helper names inlined into it)."""
    new = fn  # fn comes from a fresh un-annotated parse owned by the caller: transformed in place
    inl = Inliner(model, rel, owner_cls)
    inl.run(new)
    # baseline closures: helpers extracted next to them (sibling closures of the enclosing function) are inlined into them too
    sib = {n.name: n for n in ast.walk(new) if isinstance(n, ast.FunctionDef) and n is not new and is_artefact(rel, n, nested=True)}
    for n in list(ast.walk(new)):
        if isinstance(n, ast.FunctionDef) and n is not new and n.name not in sib:
            il = Inliner(model, rel, owner_cls)
            il.run(n, dict(sib))
            inl.inlined |= il.inlined
    _append_loops(new)
    _unroll_table_loops(new)
    _scalarise_records(model, rel, new)
    if owner_cls is not None:
        # N18: inside a method, `OwnClass.attr` names the same class object as `__class__.attr` (the rules are written with the latter)
        own_name = owner_cls.name
        if not any(isinstance(x, ast.Name) and x.id == own_name and isinstance(x.ctx, (ast.Store, ast.Del)) for x in ast.walk(new)) \
                and not any(isinstance(a_, ast.arg) and a_.arg == own_name for a_ in ast.walk(new)):
            for x in ast.walk(new):
                if isinstance(x, ast.Attribute) and isinstance(x.value, ast.Name) and x.value.id == own_name and isinstance(x.value.ctx, ast.Load):
                    x.value.id = "__class__"
    _cond_funcs(new)
    new = _Canon().visit(new)
    _guard_clauses(new)
    # nested baseline closures get the canonicalisation too (they were visited by _Canon); guard clauses per nested def:
    for n in ast.walk(new):
        if isinstance(n, ast.FunctionDef) and n is not new:
            _guard_clauses(n)
    ast.fix_missing_locations(new)
    return new, inl.inlined
