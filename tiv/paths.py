"""Single-fault leak analysis on the CFG (must-release with exceptional edges).

Given acquisition nodes and a release predicate: H = set of nodes reachable from the acquisition without passing a
release ("holding" states; faults inside clean-up code are included because H follows every edge). A *leak point*
is a node X in H such that taking ONE fault edge (`e:*`) out of X - or, for the normal case, no fault at all - and
then only non-fault edges (normal flow, finally copies, propagation) reaches a function exit without a release.
Every leaking path ends with such a last fault, so the set of leak points is complete for the model, and each is a
specific statement (file:line) that a finding can be keyed by.
"""
from __future__ import annotations

from .cfg import CFG, Node


def holding(g: CFG, starts, is_release, edge_ok=None):
    return [n for n in g.reachable(starts, avoid=is_release, edge_ok=edge_ok) if not is_release(n)]


def leak_points(g: CFG, starts, is_release, edge_ok=None, exit_kinds=("exit_return", "exit_raise_KI", "exit_raise_EX"), fault_ok=None):
    """-> (candidates, leaks) where candidates = holding nodes with a fault edge (plus a pseudo entry 'normal'),
    leaks = list of (node or None for the fault-free case, exit kind, path)."""
    H = holding(g, starts, is_release, edge_ok)
    no_fault = lambda s, lab, d: not lab.startswith("e:") and (edge_ok is None or edge_ok(s, lab, d))  # noqa: E731
    want = lambda n: n.kind in exit_kinds  # noqa: E731
    leaks = []
    cands = []
    # fault-free
    p = g.search(starts, want, avoid=is_release, edge_ok=no_fault)
    if p is not None:
        leaks.append((None, p[-1][1].kind, p))
    for x in H:
        fe = [(lab, d) for lab, d in x.succ if lab.startswith("e:") and (edge_ok is None or edge_ok(x, lab, d)) and (fault_ok is None or fault_ok(x, lab))]
        if not fe:
            continue
        cands.append(x)
        for lab, d in fe:
            if is_release(d):
                continue
            if want(d):
                leaks.append((x, d.kind, [("", x), (lab, d)]))
                break
            p = g.search([d], want, avoid=is_release, edge_ok=no_fault, from_succ=False)
            if p is not None:
                leaks.append((x, p[-1][1].kind, [("", x), (lab, d)] + p[1:]))
                break
    return cands, leaks


def dedupe_by_stmt(nodes):
    """One representative per underlying AST statement (finally copies collapse)."""
    seen = {}
    for n in nodes:
        key = id(n.ast) if n is not None and n.ast is not None else None
        seen.setdefault(key, n)
    return list(seen.values())
