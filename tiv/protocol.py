"""E12 - finite-state abstract interpretation of a chunking generator (no repository code is executed).

The kitty transmission generator reads its payload in pieces (`payload.read(size)`) and yields one graphics command per piece:
the first carries the control data, every command carries `m=1` iff another piece follows, the last one `m=0`. Whether a generator
respects that protocol does not depend on the bytes, only on WHICH read result each variable holds and on whether a read result is
empty. Both are finite information:

  * a value is the result of the k-th most recent read (offset 0 = latest; offsets beyond a small window make the analysis give up),
    a string constant / concatenation, the control data, a boolean, None;
  * a read returns a non-empty piece until, at a point chosen nondeterministically, it returns the empty string - and then forever;
  * a monitor carries the offset of the piece that has to be sent next, whether the terminating `m=0` was sent, whether the first
    command (with the control data) was sent.

The interpreter explores every abstract state reachable through the statements of the function (assignments, tuple assignments,
if, while, with, yield, return, break/continue; conditional expressions, and/or/not, bool(), f-strings, `+`, `%`), cutting a path when
a loop head is reached in a state seen before. Every payload length (0, 1, 2, ... pieces) is covered by that state space. A construct
outside this fragment raises Undecidable: the caller then falls back to other rules or reports that it cannot decide.
"""
from __future__ import annotations

import ast

from .astutil import norm

W = 4  # window of remembered reads


class Undecidable(Exception):
    pass


class Violation(Exception):
    def __init__(self, msg, node=None):
        super().__init__(msg)
        self.msg, self.node = msg, node


def _freeze(env):
    return tuple(sorted(env.items()))


class State:
    __slots__ = ("env", "reads", "phase", "e_off", "done", "first")

    def __init__(self, env, reads=(), phase="NE", e_off=-1, done=False, first=False):
        self.env, self.reads, self.phase, self.e_off, self.done, self.first = env, reads, phase, e_off, done, first

    def key(self):
        return (_freeze(self.env), self.reads, self.phase, self.e_off, self.done, self.first)

    def with_env(self, name, val):
        env = dict(self.env)
        env[name] = val
        return State(env, self.reads, self.phase, self.e_off, self.done, self.first)


def _shift(v):
    if isinstance(v, tuple) and v and v[0] == "chunk":
        return ("chunk", v[1] + 1) if v[1] + 1 < W else ("stale",)
    if isinstance(v, tuple) and v and v[0] in ("cat", "tuple", "fmt"):
        return (v[0],) + tuple(_shift(x) for x in v[1:])
    return v


class Explorer:
    def __init__(self, fn, template="KITTY_TRANSMISSION", max_states=20000):
        self.fn, self.template, self.max_states = fn, template, max_states
        self.seen = set()
        self.violations = []        # (message, node)
        self.n_states = 0
        self.n_yields = 0

    # -- reads ------------------------------------------------------------------------------
    def read(self, st):
        env = {k: _shift(v) for k, v in st.env.items()}
        outs = []
        for nonempty in ((True, False) if st.phase == "NE" else (False,)):
            reads = ((nonempty,) + st.reads)[:W]
            outs.append((("chunk", 0), State(env, reads, "NE" if nonempty else "E", st.e_off + 1, st.done, st.first)))
        return outs

    # -- expressions ------------------------------------------------------------------------
    def truth(self, v, st, node):
        if isinstance(v, bool):
            return v
        if v is None:
            return False
        if isinstance(v, str):
            return bool(v)
        if isinstance(v, int):
            return bool(v)
        if isinstance(v, tuple) and v[0] == "chunk":
            return st.reads[v[1]]
        if isinstance(v, tuple) and v[0] in ("ctrl", "payload", "fmt"):
            return True
        if isinstance(v, tuple) and v[0] == "cat":
            ts = [self.truth(x, st, node) for x in v[1:]]
            return any(ts)
        raise Undecidable(f"truth value of `{norm(node)[:60]}`")

    def ev(self, e, st):
        """-> [(value, state)]"""
        if isinstance(e, ast.Constant):
            return [(e.value, st)]
        if isinstance(e, ast.Name):
            if e.id in st.env:
                v = st.env[e.id]
                if v == ("stale",):
                    raise Undecidable(f"`{e.id}` holds a read result older than the analysis window")
                return [(v, st)]
            if e.id == self.template:
                return [(("template",), st)]
            raise Undecidable(f"name `{e.id}`")
        if isinstance(e, ast.NamedExpr) and isinstance(e.target, ast.Name):
            return [(v, s.with_env(e.target.id, v)) for v, s in self.ev(e.value, st)]
        if isinstance(e, ast.Call):
            f = e.func
            if isinstance(f, ast.Attribute) and f.attr == "read" and isinstance(f.value, ast.Name) and st.env.get(f.value.id) == ("payload",):
                if len(e.args) != 1 or norm(e.args[0]) != "size":
                    raise Undecidable(f"read with another size `{norm(e)}`")
                return self.read(st)
            if isinstance(f, ast.Name) and f.id == "bool" and len(e.args) == 1:
                return [(self.truth(v, s, e.args[0]), s) for v, s in self.ev(e.args[0], st)]
            if isinstance(f, ast.Name) and f.id in ("int", "str") and len(e.args) == 1:
                out = []
                for v, s in self.ev(e.args[0], st):
                    if isinstance(v, bool) and f.id == "int":
                        out.append((int(v), s))
                    elif isinstance(v, (int, str)) and f.id == "str":
                        out.append((str(int(v)) if isinstance(v, bool) else str(v), s))
                    else:
                        raise Undecidable(f"`{norm(e)[:50]}`")
                return out
            if norm(f) == "self.get_control_data" and not e.args:
                return [(("ctrl",), st)]
            if norm(f) in ("self.get_payload", "io.StringIO", "StringIO"):
                return [(("payload",), st)]
            raise Undecidable(f"call `{norm(e)[:60]}`")
        if isinstance(e, ast.UnaryOp) and isinstance(e.op, ast.Not):
            return [(not self.truth(v, s, e.operand), s) for v, s in self.ev(e.operand, st)]
        if isinstance(e, ast.BoolOp):
            outs = []

            def go(i, s):
                for v, s2 in self.ev(e.values[i], s):
                    t = self.truth(v, s2, e.values[i])
                    if i == len(e.values) - 1 or (t if isinstance(e.op, ast.Or) else not t):
                        outs.append((v, s2))
                    else:
                        go(i + 1, s2)
            go(0, st)
            return outs
        if isinstance(e, ast.IfExp):
            outs = []
            for v, s in self.ev(e.test, st):
                outs.extend(self.ev(e.body if self.truth(v, s, e.test) else e.orelse, s))
            return outs
        if isinstance(e, ast.Tuple):
            outs = [((), st)]
            for x in e.elts:
                outs = [(vs + (v,), s2) for vs, s in outs for v, s2 in self.ev(x, s)]
            return [(("tuple",) + vs, s) for vs, s in outs]
        if isinstance(e, ast.JoinedStr):
            outs = [((), st)]
            for part in e.values:
                if isinstance(part, ast.Constant):
                    outs = [(vs + (part.value,), s) for vs, s in outs]
                else:
                    spec = norm(part.format_spec) if part.format_spec is not None else ""
                    nxt = []
                    for vs, s in outs:
                        for v, s2 in self.ev(part.value, s):
                            if isinstance(v, bool) and "d" in spec:
                                v = str(int(v))
                            elif isinstance(v, int) and not isinstance(v, bool):
                                v = str(v)
                            nxt.append((vs + (v,), s2))
                    outs = nxt
            return [(("cat",) + vs, s) for vs, s in outs]
        if isinstance(e, ast.BinOp) and isinstance(e.op, ast.Add):
            return [(("cat", a, b), s2) for a, s in self.ev(e.left, st) for b, s2 in self.ev(e.right, s)]
        if isinstance(e, ast.BinOp) and isinstance(e.op, ast.Mod):
            outs = []
            for l, s in self.ev(e.left, st):
                if l != ("template",):
                    raise Undecidable(f"`%` on `{norm(e.left)[:40]}`")
                for r, s2 in self.ev(e.right, s):
                    if not (isinstance(r, tuple) and r[0] == "tuple" and len(r) == 3):
                        raise Undecidable(f"template arguments `{norm(e.right)[:50]}`")
                    outs.append((("fmt", r[1], r[2]), s2))
            return outs
        if isinstance(e, ast.Compare) and len(e.ops) == 1 and isinstance(e.ops[0], (ast.Is, ast.IsNot, ast.Eq, ast.NotEq)):
            outs = []
            for a, s in self.ev(e.left, st):
                for b, s2 in self.ev(e.comparators[0], s):
                    if any(isinstance(x, tuple) for x in (a, b)):
                        # comparing a read result with a constant: only `== ""`-style tests are decidable
                        ch, other = (a, b) if isinstance(a, tuple) else (b, a)
                        if ch[0] == "chunk" and other in ("", b""):
                            eq = not s2.reads[ch[1]]
                        else:
                            raise Undecidable(f"comparison `{norm(e)[:50]}`")
                    else:
                        eq = a == b
                    outs.append((eq if isinstance(e.ops[0], (ast.Is, ast.Eq)) else not eq, s2))
            return outs
        raise Undecidable(f"expression `{norm(e)[:60]}`")

    # -- the monitor --------------------------------------------------------------------------
    @staticmethod
    def _flat(v):
        if isinstance(v, tuple) and v and v[0] == "cat":
            out = []
            for x in v[1:]:
                out.extend(Explorer._flat(x))
            return out
        return [v]

    def on_yield(self, v, st, node):
        self.n_yields += 1
        if not (isinstance(v, tuple) and v[0] == "fmt"):
            raise Undecidable(f"yielded value `{norm(node)[:60]}` is not a `{self.template} % (control, chunk)` command")
        ctrl, chunk = self._flat(v[1]), v[2]
        has_ctrl = ("ctrl",) in ctrl
        text = "".join(x for x in ctrl if isinstance(x, str))
        if any(not isinstance(x, str) and x != ("ctrl",) for x in ctrl):
            raise Undecidable(f"control part of `{norm(node)[:60]}`")
        flag = 1 if text.endswith("m=1") else 0 if text.endswith("m=0") else None
        if flag is None:
            raise Violation(f"a command is yielded without an `m=` continuation flag at the end of its control string (`{text}`)", node)
        if st.done:
            raise Violation("a command is yielded after the terminating `m=0` command", node)
        if has_ctrl == st.first:
            raise Violation("the control data must be sent with the first command and only with it" + (" (a later command repeats it)" if has_ctrl else " (the first command lacks it)"), node)
        if not (isinstance(chunk, tuple) and chunk[0] == "chunk"):
            raise Violation(f"the payload of a command is not a piece read from the payload (`{chunk!r}`)", node)
        if chunk[1] != st.e_off:
            which = "is sent again" if chunk[1] > st.e_off else "is skipped"
            raise Violation(f"pieces must be sent once each, in reading order: here a piece {which}", node)
        if st.first and not st.reads[chunk[1]]:
            raise Violation("an empty piece is sent after the first command (a spurious empty graphics command)", node)
        nxt = st.e_off - 1
        if nxt < 0:
            raise Violation(f"`m={flag}` is decided before the following piece has been read: whether another piece follows is not known at this point "
                            "(a payload that ends exactly here, or continues, gets the wrong flag)", node)
        want = 1 if st.reads[nxt] else 0
        if flag != want:
            raise Violation(f"a command carries `m={flag}` when the following piece is {'non-empty' if want else 'empty'}: "
                            + ("the transmission is terminated early and the rest of the image is sent as a new, malformed command" if want else "the transmission is never terminated"), node)
        return State(st.env, st.reads, st.phase, nxt, flag == 0, True)

    def on_end(self, st, node):
        if not st.done:
            raise Violation("the generator can finish without having sent the terminating `m=0` command", node)

    # -- statements ---------------------------------------------------------------------------
    def assign(self, target, v, st, node):
        if isinstance(target, ast.Name):
            return st.with_env(target.id, v)
        if isinstance(target, (ast.Tuple, ast.List)) and isinstance(v, tuple) and v[0] == "tuple" and len(v) - 1 == len(target.elts):
            for t, x in zip(target.elts, v[1:]):
                st = self.assign(t, x, st, node)
            return st
        raise Undecidable(f"assignment `{norm(node)[:60]}`")

    def block(self, stmts, st):
        """-> [(outcome, state)], outcome in next/return/break/continue"""
        states = [st]
        outs = []
        for s in stmts:
            nxt = []
            for cur in states:
                for oc, s2 in self.stmt(s, cur):
                    (nxt if oc == "next" else outs).append((oc, s2) if oc != "next" else s2)
            states = nxt
            if not states:
                break
        return outs + [("next", s) for s in states]

    def stmt(self, s, st):
        self.n_states += 1
        if self.n_states > self.max_states:
            raise Undecidable("state space too large")
        if isinstance(s, ast.Expr) and isinstance(s.value, ast.Constant):
            return [("next", st)]
        if isinstance(s, ast.Pass):
            return [("next", st)]
        if isinstance(s, ast.Expr) and isinstance(s.value, ast.Yield):
            if s.value.value is None:
                raise Undecidable("bare yield")
            return [("next", self.on_yield(v, s2, s.value)) for v, s2 in self.ev(s.value.value, st)]
        if isinstance(s, ast.Assign) and len(s.targets) == 1:
            return [("next", self.assign(s.targets[0], v, s2, s)) for v, s2 in self.ev(s.value, st)]
        if isinstance(s, ast.AnnAssign):
            if s.value is None:
                return [("next", st)]
            return [("next", self.assign(s.target, v, s2, s)) for v, s2 in self.ev(s.value, st)]
        if isinstance(s, ast.If):
            outs = []
            for v, s2 in self.ev(s.test, st):
                outs.extend(self.block(s.body if self.truth(v, s2, s.test) else s.orelse, s2))
            return outs
        if isinstance(s, ast.While):
            outs = []
            work = [st]
            while work:
                cur = work.pop()
                k = (id(s), cur.key())
                if k in self.seen:
                    continue
                self.seen.add(k)
                for v, s2 in self.ev(s.test, cur):
                    if not self.truth(v, s2, s.test):
                        outs.extend(self.block(s.orelse, s2))
                        continue
                    for oc, s3 in self.block(s.body, s2):
                        if oc in ("next", "continue"):
                            work.append(s3)
                        elif oc == "break":
                            outs.append(("next", s3))
                        else:
                            outs.append((oc, s3))
            return outs
        if isinstance(s, ast.With):
            cur = [st]
            for it in s.items:
                nxt = []
                for c in cur:
                    for v, s2 in self.ev(it.context_expr, c):
                        if v != ("payload",):
                            raise Undecidable(f"with `{norm(it.context_expr)[:50]}`")
                        nxt.append(self.assign(it.optional_vars, v, s2, s) if it.optional_vars is not None else s2)
                cur = nxt
            return [x for c in cur for x in self.block(s.body, c)]
        if isinstance(s, ast.Return):
            if s.value is not None and not (isinstance(s.value, ast.Constant) and s.value.value is None):
                raise Undecidable("return with a value")
            return [("return", st)]
        if isinstance(s, ast.Break):
            return [("break", st)]
        if isinstance(s, ast.Continue):
            return [("continue", st)]
        raise Undecidable(f"statement `{norm(s)[:60]}`")

    def run(self):
        """Explore; -> list of (message, node) violations (first one per distinct message). Raises Undecidable."""
        params = {a.arg for a in self.fn.args.args + self.fn.args.kwonlyargs}
        if "size" not in params:
            raise Undecidable("no `size` parameter")
        st = State({})
        found = {}
        body = [s for s in self.fn.body]

        def explore(stmts, st0):
            try:
                for oc, s2 in self.block(stmts, st0):
                    if oc in ("next", "return"):
                        try:
                            self.on_end(s2, self.fn)
                        except Violation as v:
                            found.setdefault(v.msg, v.node)
            except Violation as v:
                found.setdefault(v.msg, v.node)
        # a violation on one path must not hide the exploration of the others: explore path by path from the nondeterministic choices.
        # (Violations are raised eagerly; to collect several, the exploration is repeated with the failing choice pruned - in
        # practice one witness per run is enough, the rule reports it.)
        explore(body, st)
        return sorted(found.items(), key=lambda kv: kv[0])
