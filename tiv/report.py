"""Obligations, findings, known-findings matching, evidence and exit codes."""
from __future__ import annotations

import json
import os
import time

from .astutil import short
from .srcmodel import PKG, AnalysisError, Model

VERIF = os.path.dirname(os.path.dirname(os.path.abspath(__file__)))
KNOWN = os.path.join(VERIF, "known_findings.json")

ASSUMPTIONS = [
    "Static analysis of /repo/src/term_image as parsed by the `ast` module of the running interpreter; no code of the repository is imported or executed.",
    "CPython semantics of try/finally/with, attribute lookup (MRO) and generators are trusted.",
    "Exception model: sync = a statement may raise iff it contains a call/subscript/operator/non-self attribute load/raise/assert/del/unpacking; async adds an interrupt edge after every statement (DESIGN.md 2.2).",
    "Calls are resolved syntactically (aliases, self/cls, class hierarchy by name); behaviour of third-party code (PIL, termios, urwid, multiprocessing) and of the terminal is outside the analysis.",
    "Rules decide the structural clauses named in DESIGN.md section 4 - necessary conditions of the property - not the runtime-valued remainder.",
]


class Obligation:
    __slots__ = ("rule", "construct", "stmt", "ok", "msg", "loc", "nontrivial")

    def __init__(self, rule, construct, stmt, ok, msg, loc, nontrivial):
        self.rule, self.construct, self.stmt, self.ok, self.msg, self.loc, self.nontrivial = (
            rule, construct, stmt, ok, msg, loc, nontrivial,
        )

    def key(self):
        return (self.rule, self.construct, self.stmt)

    def as_dict(self):
        return {
            "rule": self.rule, "construct": self.construct, "statement": self.stmt,
            "verdict": "discharged" if self.ok else "VIOLATED", "detail": self.msg, "at": self.loc,
        }


class Check:
    """Collects the obligations of one property for one run."""

    def __init__(self, pid: str, model: Model, tier: str = "quick"):
        self.pid = pid
        self.m = model
        self.tier = tier
        self.rules: dict[str, str] = {}
        self.obs: list[Obligation] = []
        self.notes: list[str] = []
        self.extra: dict = {}
        self.deferred: list[str] = []
        self.t0 = time.time()

    def rule(self, rid: str, text: str) -> str:
        self.rules[f"{self.pid}.{rid}"] = text
        return rid

    def ob(self, rid: str, node, ok: bool, msg: str = "", stmt=None, construct: str | None = None, nontrivial=True):
        """Record one obligation. `node` locates it; `stmt` (node or str) is the normalised statement
        used as the identity of a finding (defaults to node)."""
        if stmt is None:
            stmt = node
        s = stmt if isinstance(stmt, str) else short(stmt, 160)
        if construct is None:
            construct = self.m.construct(node) if node is not None else "<package>"
        loc = self.m.loc(node) if node is not None else PKG
        o = Obligation(f"{self.pid}.{rid}", construct, s, bool(ok), msg, loc, nontrivial)
        self.obs.append(o)
        return bool(ok)

    def need(self, cond, msg: str):
        """Anchor / instance-count requirement: failing it is an analysis error (exit 2), not a violation."""
        if not cond:
            raise AnalysisError(f"{self.pid}: {msg}")

    def expect(self, cond, msg: str):
        """Vacuity guard evaluated at the end of the run: reported as ANALYSIS-ERROR (exit 2) unless the
        run also found violations (which are then reported first - they are more specific)."""
        if not cond:
            self.deferred.append(f"{self.pid}: {msg}")

    def min_instances(self, rid: str, minimum: int):
        n = sum(1 for o in self.obs if o.rule == f"{self.pid}.{rid}")
        self.expect(n >= minimum, f"rule {rid} matched {n} instance(s), fewer than the {minimum} confirmed by hand (vacuity guard)")

    def note(self, s: str):
        self.notes.append(s)

    # -- results -------------------------------------------------------------------
    def violations(self):
        return [o for o in self.obs if not o.ok]


def load_known():
    try:
        data = json.load(open(KNOWN))
    except FileNotFoundError:
        return []
    return data.get("findings", [])


def classify(pid: str, violations):
    """Split violations into (new, known) according to known_findings.json (status == 'known' only)."""
    known = [k for k in load_known() if k.get("property") == pid and k.get("status") == "known"]
    new, matched = [], []
    for v in violations:
        hit = None
        for k in known:
            if k["rule"] == v.rule and k["construct"] == v.construct and k["statement"] == v.stmt:
                hit = k
                break
        if hit:
            matched.append((v, hit))
        else:
            new.append(v)
    return new, matched


def write_evidence(ck: Check, new, matched, extra=None, analysis_error: str | None = None):
    os.makedirs(os.path.join(VERIF, "evidence"), exist_ok=True)
    obs = ck.obs
    distinct = {o.key() for o in obs if o.nontrivial}
    per_rule = {}
    for o in obs:
        d = per_rule.setdefault(o.rule, {"obligations": 0, "discharged": 0})
        d["obligations"] += 1
        d["discharged"] += o.ok
    samples = []
    seen_rules = set()
    for o in obs:  # one sample per rule first, then violations
        if o.rule not in seen_rules:
            seen_rules.add(o.rule)
            samples.append(o.as_dict())
    for o in obs:
        if not o.ok and o.as_dict() not in samples:
            samples.append(o.as_dict())
    funcs = sorted({o.construct for o in obs})
    cov = {
        "explanation": (
            f"Static rules for {ck.pid} evaluated over the parsed sources of /repo/src/term_image "
            f"(source digest {ck.m.digest()}): each obligation is a structural fact (pairing, dominance, table "
            "agreement, who-may-write, language equality ...) that is a necessary condition of the property; "
            "see `rules` for the rule texts and DESIGN.md section 4 for what is and is not decided."
            + (f" ANALYSIS-ERROR: {analysis_error}" if analysis_error else "")
        ),
        "obligations": len(obs),
        "discharged": sum(o.ok for o in obs),
        "evaluations": max(len(obs), 1),
        "distinct_nontrivial": len(distinct),
        "rule": "one evaluation per rule instance (rule, construct, normalised statement); non-trivial = the site contains at least one relevant effect/def/use for the rule; distinct by that triple",
        "samples": samples[:40],
        "rules": {**ck.rules},
        "per_rule": per_rule,
        "constructs_analysed": funcs,
        "modules_parsed": len(ck.m.files),
        "functions_in_package": sum(1 for _ in ck.m.functions()),
        "known_findings_matched": [
            {"rule": v.rule, "construct": v.construct, "statement": v.stmt, "what": k.get("what", "")} for v, k in matched
        ],
        "notes": ck.notes,
        "exhaustive": True,
    }
    cov.update(ck.extra)
    if extra:
        cov.update(extra)
    ev = {
        "property_id": ck.pid,
        "tier": ck.tier,
        "seed": int(os.environ.get("VERIF_SEED", "0") or 0),
        "level": "other",
        "coverage": cov,
        "assumptions": ASSUMPTIONS,
        "wall_s": round(time.time() - ck.t0, 3),
        "violations": len(new),
    }
    path = os.path.join(VERIF, "evidence", f"{ck.pid}.json")
    with open(path, "w") as f:
        json.dump(ev, f, indent=1)
        f.write("\n")
    return path


def write_replay(ck: Check, new):
    path = os.path.join(VERIF, "evidence", f"{ck.pid}.replay.json")
    with open(path, "w") as f:
        json.dump({"property": ck.pid, "violations": [o.as_dict() for o in new]}, f, indent=1)
        f.write("\n")
    return path



class Scoped:
    """A view of a Check that lets one property reuse another property's rule module for part of the code: obligations are kept
    only when their construct matches `keep` (a predicate on the construct string) and are filed under rule id `rid`;
    vacuity guards (`expect`, `min_instances`) of the borrowed module are not inherited, hard needs are."""

    def __init__(self, ck, rid, keep, rids=None):
        self._ck, self._rid, self._keep, self._rids = ck, rid, keep, rids
        self.m, self.pid, self.extra = ck.m, ck.pid, {}
        self.kept = 0

    def ob(self, rid, node, ok, msg="", stmt=None, construct=None, nontrivial=True):
        c = construct if construct is not None else (self.m.construct(node) if node is not None else "<package>")
        if not self._keep(c) or (self._rids is not None and rid not in self._rids):
            return bool(ok)
        self.kept += 1
        return self._ck.ob(self._rid, node, ok, msg, stmt if stmt is not None else node, construct, nontrivial)

    def need(self, cond, msg):
        return self._ck.need(cond, msg)

    def expect(self, cond, msg):
        return None

    def min_instances(self, rid, minimum):
        return None


def borrow(ck, module, m, rid, keep, rids=None, min_kept=1):
    """Apply a sibling property's rule module to part of the code (see Scoped) as a *bonus* clause of this property: when the sibling's
    rules cannot be applied to the current shape of their anchors (AnalysisError), this property does not become undecided for
    that reason - the sibling's own check reports it; the note is kept in the evidence."""
    from .srcmodel import AnalysisError
    sc = Scoped(ck, rid, keep, rids)
    try:
        module.run(sc, m)
    except AnalysisError as e:
        ck.extra.setdefault("notes", []).append(f"shared rules of {module.__name__} {sorted(rids or [])} not applicable to the current code ({str(e)[:160]}); decided by that property's own check")
        return sc
    ck.expect(sc.kept >= min_kept, f"expected >= {min_kept} obligations from the shared rules of {module.__name__} {sorted(rids or [])}, got {sc.kept}")
    return sc

