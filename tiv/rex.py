"""E7 - regular-language algebra on regex *literals* found in the source.

re._parser.parse gives the regex AST (the dialect of the interpreter the library runs under); Thompson
construction over character *predicates*; subset construction over a finite set of representative
characters that refines every character set used by the patterns of one check (interval end points of
all literals/ranges/ASCII categories, plus sample non-ASCII code points for Unicode categories);
product automata for boolean combinations; BFS for shortest witnesses. Exact for patterns whose classes
are ASCII (re.ASCII honoured); for non-ASCII category members the samples make a *difference* visible
(e.g. a dropped re.ASCII flag) but equality is then relative to the sample set - stated in the evidence.
"""
from __future__ import annotations

import re
import re._constants as C
import re._parser as P
from collections import deque

from .srcmodel import AnalysisError

ASCII_DIGITS = "0123456789"
ASCII_WORD = "abcdefghijklmnopqrstuvwxyzABCDEFGHIJKLMNOPQRSTUVWXYZ0123456789_"
ASCII_SPACE = " \t\n\r\f\v"
UNICODE_SAMPLES = "٣é €ß\U0001d7d8"  # arabic digit, e-acute, em space, euro, sharp s, math digit


def _cat_pred(cat, ascii_):
    if cat is C.CATEGORY_DIGIT:
        return (lambda c: c in ASCII_DIGITS) if ascii_ else (lambda c: c.isdigit() or c in ASCII_DIGITS)
    if cat is C.CATEGORY_NOT_DIGIT:
        p = _cat_pred(C.CATEGORY_DIGIT, ascii_)
        return lambda c: not p(c)
    if cat is C.CATEGORY_WORD:
        return (lambda c: c in ASCII_WORD) if ascii_ else (lambda c: c.isalnum() or c == "_")
    if cat is C.CATEGORY_NOT_WORD:
        p = _cat_pred(C.CATEGORY_WORD, ascii_)
        return lambda c: not p(c)
    if cat is C.CATEGORY_SPACE:
        return (lambda c: c in ASCII_SPACE) if ascii_ else (lambda c: c.isspace())
    if cat is C.CATEGORY_NOT_SPACE:
        p = _cat_pred(C.CATEGORY_SPACE, ascii_)
        return lambda c: not p(c)
    raise AnalysisError(f"regex engine: unsupported category {cat}")


def _item_pred(op, av, flags, bounds):
    ascii_ = bool(flags & re.ASCII)
    icase = bool(flags & re.IGNORECASE)
    dotall = bool(flags & re.DOTALL)

    def fold(f):
        if not icase:
            return f
        return lambda c: f(c) or f(c.lower()) or f(c.upper())

    if op is C.LITERAL:
        bounds.update((av, av + 1))
        return fold(lambda c: ord(c) == av)
    if op is C.NOT_LITERAL:
        bounds.update((av, av + 1))
        return fold(lambda c: ord(c) != av)
    if op is C.ANY:
        bounds.update((10, 11))
        return (lambda c: True) if dotall else (lambda c: c != "\n")
    if op is C.IN:
        neg = False
        preds = []
        for o, a in av:
            if o is C.NEGATE:
                neg = True
            elif o is C.LITERAL:
                bounds.update((a, a + 1))
                preds.append(lambda c, a=a: ord(c) == a)
            elif o is C.RANGE:
                bounds.update((a[0], a[1] + 1))
                preds.append(lambda c, a=a: a[0] <= ord(c) <= a[1])
            elif o is C.CATEGORY:
                preds.append(_cat_pred(a, ascii_))
            else:
                raise AnalysisError(f"regex engine: unsupported set item {o}")
        base = fold(lambda c: any(p(c) for p in preds))
        return (lambda c: not base(c)) if neg else base
    raise AnalysisError(f"regex engine: unsupported opcode {op}")


class NFA:
    def __init__(self):
        self.n = 0
        self.eps: dict[int, list[int]] = {}
        self.tr: list[tuple[int, object, int]] = []
        self.bounds: set[int] = set()

    def new(self):
        self.n += 1
        return self.n - 1

    def e(self, a, b):
        self.eps.setdefault(a, []).append(b)


def _build(nfa: NFA, seq, cur, flags):
    for op, av in seq:
        if op in (C.LITERAL, C.NOT_LITERAL, C.ANY, C.IN):
            nxt = nfa.new()
            nfa.tr.append((cur, _item_pred(op, av, flags, nfa.bounds), nxt))
            cur = nxt
        elif op is C.SUBPATTERN:
            group, add_flags, del_flags, sub = av
            cur = _build(nfa, sub, cur, (flags | add_flags) & ~del_flags)
        elif op is C.BRANCH:
            end = nfa.new()
            for alt in av[1]:
                s = nfa.new()
                nfa.e(cur, s)
                nfa.e(_build(nfa, alt, s, flags), end)
            cur = end
        elif op in (C.MAX_REPEAT, C.MIN_REPEAT, getattr(C, "POSSESSIVE_REPEAT", None)):
            lo, hi, sub = av
            for _ in range(lo):
                cur = _build(nfa, sub, cur, flags)
            if hi is C.MAXREPEAT:
                loop = nfa.new()
                nfa.e(cur, loop)
                nfa.e(_build(nfa, sub, loop, flags), loop)
                cur = loop
            else:
                end = nfa.new()
                nfa.e(cur, end)
                for _ in range(hi - lo):
                    cur = _build(nfa, sub, cur, flags)
                    nfa.e(cur, end)
                cur = end
        elif op is C.AT and av in (C.AT_BEGINNING, C.AT_BEGINNING_STRING, C.AT_END_STRING):
            continue  # fullmatch semantics: only legal at the ends; position not checked here
        else:
            raise AnalysisError(f"regex engine: unsupported construct {op} (pattern outside the modelled fragment)")
    return cur


class Lang:
    """A regular language given by an NFA (start, accept)."""

    def __init__(self, nfa, start, accept, pattern=""):
        self.nfa, self.start, self.accept, self.pattern = nfa, start, accept, pattern


def compile_pattern(pattern: str, flags: int = 0, contains: bool = False) -> Lang:
    """Language of `pattern` under fullmatch; contains=True gives Sigma* pattern Sigma* (search semantics)."""
    if isinstance(pattern, bytes):
        raise AnalysisError("regex engine: bytes patterns not modelled")
    try:
        parsed = P.parse(pattern, flags)
    except re.error as e:
        raise AnalysisError(f"regex literal does not compile: {pattern!r}: {e}") from None
    flags = parsed.state.flags
    nfa = NFA()
    s = nfa.new()
    cur = s
    anyc = lambda c: True  # noqa: E731
    if contains:
        nfa.tr.append((s, anyc, s))
    e = _build(nfa, parsed, cur, flags)
    if contains:
        nfa.tr.append((e, anyc, e))
    return Lang(nfa, s, e, pattern)


def group_subpatterns(pattern: str, flags: int = 0):
    """{group index: (sub-pattern items, effective flags)} for every capturing group."""
    parsed = P.parse(pattern, flags)
    out = {}

    def rec(seq, fl):
        for op, av in seq:
            if op is C.SUBPATTERN:
                g, a, d, sub = av
                f2 = (fl | a) & ~d
                if g is not None:
                    out[g] = (sub, f2)
                rec(sub, f2)
            elif op is C.BRANCH:
                for alt in av[1]:
                    rec(alt, fl)
            elif op in (C.MAX_REPEAT, C.MIN_REPEAT):
                rec(av[2], fl)

    rec(parsed, parsed.state.flags)
    return out, parsed.state.groups - 1


def lang_of_items(items, flags) -> Lang:
    nfa = NFA()
    s = nfa.new()
    e = _build(nfa, items, s, flags)
    return Lang(nfa, s, e)


def alphabet(langs) -> list[str]:
    bounds = {0, 10, 11, 128}
    for L in langs:
        bounds |= L.nfa.bounds
    for ch in ASCII_DIGITS[0] + ":" + "A[_`a{" + " !\t\x0e":  # edges of ASCII categories
        bounds.add(ord(ch))
    reps = {chr(b) for b in bounds if 0 <= b < 0x110000}
    reps |= set(UNICODE_SAMPLES)
    return sorted(reps)


def _closure(nfa, S):
    st = list(S)
    S = set(S)
    while st:
        q = st.pop()
        for r in nfa.eps.get(q, ()):
            if r not in S:
                S.add(r)
                st.append(r)
    return frozenset(S)


class DFA:
    def __init__(self, L: Lang, sigma):
        nfa = L.nfa
        by_src: dict[int, list] = {}
        for a, p, d in nfa.tr:
            by_src.setdefault(a, []).append((p, d))
        start = _closure(nfa, {L.start})
        self.states = {start: 0}
        self.trans: dict[tuple[int, str], int] = {}
        self.acc: set[int] = set()
        work = [start]
        while work:
            S = work.pop()
            i = self.states[S]
            if L.accept in S:
                self.acc.add(i)
            for c in sigma:
                T = set()
                for q in S:
                    for p, d in by_src.get(q, ()):
                        if p(c):
                            T.add(d)
                T = _closure(nfa, T)
                if T not in self.states:
                    self.states[T] = len(self.states)
                    work.append(T)
                self.trans[(i, c)] = self.states[T]
        self.n = len(self.states)


def witnesses(dfas: list[DFA], sigma, want, limit=5):
    """Shortest strings w such that want(tuple of accept-bits of each dfa on w) is true. Also returns
    the number of product states explored."""
    start = tuple(0 for _ in dfas)
    seen = {start: ""}
    q = deque([start])
    out = []
    while q:
        st = q.popleft()
        w = seen[st]
        bits = tuple(s in d.acc for s, d in zip(st, dfas))
        if want(bits):
            out.append(w)
            if len(out) >= limit:
                break
        for c in sigma:
            nx = tuple(d.trans[(s, c)] for s, d in zip(st, dfas))
            if nx not in seen:
                seen[nx] = w + c
                q.append(nx)
    return out, len(seen)


def decide(langs: list[Lang], want, limit=5):
    sigma = alphabet(langs)
    dfas = [DFA(L, sigma) for L in langs]
    w, n = witnesses(dfas, sigma, want, limit)
    return w, {"alphabet_classes": len(sigma), "dfa_states": [d.n for d in dfas], "product_states": n}
