"""Role normalisation: a rule that reasons about 'the frame variable', 'the cache', 'the frame number' first finds which local
plays each role (by what is assigned to it / how it is used) and renames it, in the model's private copy of the function, to the
canonical name the rule is written with. The analysis itself is unchanged; it merely no longer depends on the spelling of locals."""
from __future__ import annotations

import ast


def rename_locals(fn, mapping: dict[str, str]) -> dict[str, str]:
    """Rename local variables of fn in place (Name nodes, also inside nested lambdas/comprehensions; nested defs that rebind the
    name are skipped). A renaming whose target name is already used for something else in fn is not applied. -> applied mapping."""
    mapping = {a: b for a, b in mapping.items() if a != b}
    if not mapping:
        return {}
    used = {n.id for n in ast.walk(fn) if isinstance(n, ast.Name)} | {a.arg for a in ast.walk(fn) if isinstance(a, ast.arg)}
    applied = {a: b for a, b in mapping.items() if b not in used or b in mapping}
    if len(set(applied.values())) != len(applied):
        return {}
    for n in ast.walk(fn):
        if isinstance(n, ast.Name) and n.id in applied:
            n.id = applied[n.id]
        elif isinstance(n, ast.arg) and n.arg in applied:
            n.arg = applied[n.arg]
        elif isinstance(n, (ast.Global, ast.Nonlocal)):
            n.names = [applied.get(x, x) for x in n.names]
    from . import sem
    sem._mut_cache.pop(id(fn), None)
    return applied
