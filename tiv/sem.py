"""Semantic comparison helpers: rules compare *meanings up to harmless rewrites*, not spellings.

expand(fn, e)   copy propagation on demand: every local name in `e` that has exactly one binding in `fn`, by a plain
                assignment whose right-hand side is pure (no calls except a small set of pure builtins/methods) and whose
                operands are not rebound later, is replaced by that right-hand side (recursively, depth-limited).
                `a, b = (x, y)` style unpackings of tuple displays are followed component-wise.
cx(e)           canonical, hashable form of an expression:
                  * boolean structure in negation normal form, and/or flattened, operands as sets;
                  * comparisons oriented (`a > b` -> `b < a`), `not (a < b)` -> `b <= a`, chains split into conjunctions,
                    `==`/`!=`/`is`/`is not` with unordered operands;
                  * `a if a else b` -> `a or b`; `b if not a else a` likewise;
                  * string building: f-strings, `+` concatenation and `"".join((..))` of displays become one flat
                    ("cat", parts) with adjacent literals merged; `s * 2` with a literal count is unrolled;
                  * integer arithmetic in polynomial normal form (tiv.affine) where possible;
                  * everything else structurally, with operands canonicalised recursively.
same(fn, a, b)  cx(expand(a)) == cx(expand(b)); `b` may be source text.
These are sound as *equivalences* (every rewrite preserves value and evaluation effects for the pure fragment); they
are not complete - a spelling they do not relate is simply "different".
"""
from __future__ import annotations

import ast
import copy

from . import affine
from .astutil import norm, stores_in, clone

PURE_CALLS = {"len", "max", "min", "round", "ceil", "floor", "abs", "int", "float", "bool", "str", "tuple", "list", "set", "frozenset", "isinstance",
              "issubclass", "type", "hash", "divmod", "sum", "any", "all", "sorted", "reversed", "zip", "map", "range", "enumerate", "repr", "getattr",
              "cursor_up", "cursor_down", "cursor_forward", "cursor_backward", "mul", "truediv", "floordiv", "gt", "lt"}
PURE_METHODS = {"lower", "upper", "strip", "lstrip", "rstrip", "startswith", "endswith", "decode", "encode", "split", "partition", "rpartition", "join",
                "format", "get", "keys", "values", "items", "copy", "count", "index", "rindex", "replace", "groups", "group", "tell", "get_padded_size",
                "resolve", "to_exact", "_get_exact_dimensions_", "_get_render_size", "_get_minimal_render_size", "tobytes"}


def is_pure(e) -> bool:
    for n in ast.walk(e):
        if isinstance(n, (ast.Yield, ast.YieldFrom, ast.Await, ast.NamedExpr, ast.Lambda)):
            return False
        if isinstance(n, ast.Call):
            f = n.func
            if isinstance(f, ast.Name) and f.id in PURE_CALLS:
                continue
            if isinstance(f, ast.Attribute) and f.attr in PURE_METHODS:
                continue
            return False
    return True


def _bindings(fn):
    out = {}
    body = fn.body if isinstance(fn.body, list) else []
    for t, st in stores_in(ast.Module(body=body, type_ignores=[])):
        if isinstance(t, ast.Name):
            out.setdefault(t.id, []).append((t, st))
    params = set()
    a = fn.args
    for p in a.posonlyargs + a.args + a.kwonlyargs:
        params.add(p.arg)
    if a.vararg:
        params.add(a.vararg.arg)
    if a.kwarg:
        params.add(a.kwarg.arg)
    return out, params


def _unpack_component(target_tuple, value, name):
    """value component bound to `name` by `target_tuple = value` when value is a display of the same arity."""
    if isinstance(value, (ast.Tuple, ast.List)) and len(value.elts) == len(target_tuple.elts) and not any(isinstance(x, ast.Starred) for x in target_tuple.elts + value.elts):
        for t, v in zip(target_tuple.elts, value.elts):
            if isinstance(t, ast.Name) and t.id == name:
                return v
            if isinstance(t, (ast.Tuple, ast.List)):
                r = _unpack_component(t, v, name)
                if r is not None:
                    return r
    return None


def _block_of(st):
    par = getattr(st, "_p", None)
    if par is None:
        return None, -1
    for f in ("body", "orelse", "finalbody"):
        v = getattr(par, f, None)
        if isinstance(v, list):
            for i, x in enumerate(v):
                if x is st:
                    return v, i
    return None, -1


def _stmt_of(node):
    while node is not None and not isinstance(node, ast.stmt):
        node = getattr(node, "_p", None)
    return node


def _ends(stmts) -> bool:
    """The statement list cannot complete normally (its last statement leaves: return/raise/continue/break, or an if/else both of
    whose branches do)."""
    if not stmts:
        return False
    last = stmts[-1]
    if isinstance(last, (ast.Return, ast.Raise, ast.Continue, ast.Break)):
        return True
    if isinstance(last, ast.If):
        return _ends(last.body) and _ends(last.orelse)
    if isinstance(last, (ast.With, ast.AsyncWith)):
        return _ends(last.body)
    return False


def _live_stores(x):
    """Stores of statement x that can still be in effect when control continues after x (stores in branches that always leave
    the enclosing block are dropped)."""
    if isinstance(x, ast.If):
        out = []
        if not _ends(x.body):
            for y in x.body:
                out.extend(_live_stores(y))
        if not _ends(x.orelse):
            for y in x.orelse:
                out.extend(_live_stores(y))
        out.extend((t, x) for t, _ in stores_in(ast.Expr(value=x.test)))
        return out
    if isinstance(x, (ast.With, ast.AsyncWith)) and _ends(x.body):
        return []
    return stores_in(x)


UNPACK_AS_SUBSCRIPT = True    # `w, h = V` makes w == V[0], h == V[1]


def _value_bound_by(st, name):
    """The expression bound to `name` by the plain statement `st` (`name = v`, `a, name = x, v`, `a, name = V` -> V[1],
    `name: T = v`), or None when st binds it in another way (augmented, loop target, del, starred...)."""
    if isinstance(st, ast.Assign):
        for tgt in st.targets:
            if isinstance(tgt, ast.Name) and tgt.id == name:
                return st.value
            if isinstance(tgt, (ast.Tuple, ast.List)) and len(st.targets) == 1:
                v = _unpack_component(tgt, st.value, name)
                if v is not None:
                    return v
                if UNPACK_AS_SUBSCRIPT and not isinstance(st.value, (ast.Tuple, ast.List)):
                    stars = [i for i, x in enumerate(tgt.elts) if isinstance(x, ast.Starred)]
                    n_ = len(tgt.elts)
                    if not stars:
                        idx = [i for i, x in enumerate(tgt.elts) if isinstance(x, ast.Name) and x.id == name]
                        if len(idx) == 1:
                            return ast.Subscript(value=st.value, slice=ast.Constant(value=idx[0]), ctx=ast.Load())
                    elif len(stars) == 1:
                        # `a, b, *rest, z = V`:  a == V[0], b == V[1], rest == V[2:-1], z == V[-1]
                        k = stars[0]
                        for i, x in enumerate(tgt.elts):
                            if isinstance(x, ast.Name) and x.id == name:
                                return ast.Subscript(value=st.value, slice=ast.Constant(value=i if i < k else i - n_), ctx=ast.Load())
                            if isinstance(x, ast.Starred) and isinstance(x.value, ast.Name) and x.value.id == name:
                                after = n_ - 1 - k
                                sl = ast.Slice(lower=ast.Constant(value=k) if k else None, upper=ast.UnaryOp(op=ast.USub(), operand=ast.Constant(value=after)) if after else None, step=None)
                                return ast.Subscript(value=st.value, slice=sl, ctx=ast.Load())
    if isinstance(st, ast.AnnAssign) and st.value is not None and isinstance(st.target, ast.Name) and st.target.id == name:
        return st.value
    if isinstance(st, ast.AugAssign) and isinstance(st.target, ast.Name) and st.target.id == name:
        # `name op= v`: the old value (read at this statement: the synthetic operand hangs off it) combined with v
        left = ast.Name(id=name, ctx=ast.Load())
        left._p = st
        left.lineno, left.col_offset = st.lineno, st.col_offset
        return ast.BinOp(left=left, op=st.op, right=st.value)
    if isinstance(st, (ast.Assign, ast.AnnAssign, ast.Expr, ast.Return)):
        ws = [n for n in ast.walk(st) if isinstance(n, ast.NamedExpr) and isinstance(n.target, ast.Name) and n.target.id == name]
        if len(ws) == 1:
            return ws[0].value            # `(name := v)` inside a simple statement
    return None


def _binds(x, name) -> bool:
    return any(isinstance(t, ast.Name) and t.id == name for t, _ in _live_stores(x))


def _last_value_in(stmts, name, fn, allow_calls):
    """Value of `name` at the end of the statement list, if the list (which completes normally) determines it: the last live
    store is a plain top-level binding, or an if/else merge; 'NONE' when the list does not bind it."""
    for x in reversed(stmts):
        if not _binds(x, name):
            continue
        v = _value_bound_by(x, name)
        if v is not None:
            return v
        if isinstance(x, ast.If):
            return _merge_if(x, name, fn, allow_calls)
        if isinstance(x, ast.Try):
            return _merge_try(x, name, fn, allow_calls)
        return None
    return "NONE"


def _merge_try(x, name, fn, allow_calls):
    """Value of `name` after `try: A except E: H`: A's value when no handler can complete normally; when a handler that completes binds the
    name as well, `h if __raised__(E) else a` (an opaque test: which of the two happened is not known statically). A handler that
    completes without binding it, or a `finally` that binds it, makes the value ambiguous (None)."""
    if any(isinstance(t, ast.Name) and t.id == name for s_ in x.finalbody for t, _ in stores_in(s_)):
        return None
    bv = _last_value_in(list(x.body) + list(x.orelse), name, fn, allow_calls)
    if bv is None or bv == "NONE":
        return None
    out = bv
    for h in reversed(x.handlers):
        if _ends(h.body):
            continue
        hv = _last_value_in(h.body, name, fn, allow_calls)
        if hv is None or hv == "NONE":
            return None
        test = ast.Call(func=ast.Name(id="__raised__", ctx=ast.Load()), args=[h.type] if h.type is not None else [], keywords=[])
        out = ast.IfExp(test=test, body=hv, orelse=out)
    return out


def _merge_if(x, name, fn, allow_calls):
    """phi-node: the value of `name` after `if t: A else: B` as `a if t else b` (a branch that always leaves contributes nothing;
    a branch that does not bind the name contributes the value reaching the `if`)."""
    vals = []
    for br in (x.body, x.orelse):
        if _ends(br):
            vals.append("DEAD")
            continue
        v = _last_value_in(br, name, fn, allow_calls) if br else "NONE"
        if v is None:
            return None
        if v == "NONE":
            b, params = _bindings(fn)
            if name not in params and all(st.lineno >= x.lineno for _, st in b.get(name, [])):
                vals.append("DEAD")      # unbound on this path: a path that reads the name cannot come through here
                continue
            v = reaching_definition(fn, name, x, allow_calls, _at_stmt=True)
            if v is None:
                return None
            if v is ENTRY:
                v = ast.Name(id=f"{name}__0" if name in params else name, ctx=ast.Load())
        vals.append(v)
    if vals[0] == "DEAD" and vals[1] == "DEAD":
        return None
    if vals[0] == "DEAD":
        return vals[1]
    if vals[1] == "DEAD":
        return vals[0]
    return ast.IfExp(test=x.test, body=vals[0], orelse=vals[1])


def reaching_definition(fn, name, use, allow_calls=False, _at_stmt=False):
    """Flow-sensitive: the expression whose value `name` holds at `use`, found by walking backwards over the preceding siblings
    of the use, then of its enclosing statements. The first statement met that (live-)stores `name` must be a plain binding, or an
    if/else whose branches determine it (merged into a conditional expression); anything else (loop-carried, augmented, nested in
    try...) is ambiguous -> None. `with E as name` on the way up gives E. Operand names inside the result keep their own sites
    (see expand)."""
    st = use if _at_stmt else _stmt_of(use)
    if st is None:
        return None
    cur = st
    while cur is not None and cur is not fn:
        block, i = _block_of(cur)
        par = getattr(cur, "_p", None)
        if block is None:
            if isinstance(par, ast.ExceptHandler):
                block, i = par.body, next((k for k, x in enumerate(par.body) if x is cur), -1)
                if i < 0:
                    return None
            else:
                return None
        for x in reversed(block[:i]):
            if not _binds(x, name):
                continue
            v = _value_bound_by(x, name)
            if v is None and isinstance(x, ast.If):
                v = _merge_if(x, name, fn, allow_calls)
            if v is None and isinstance(x, ast.Try):
                v = _merge_try(x, name, fn, allow_calls)
            if v is None or not (allow_calls or is_pure(v)):
                return None
            return v
        if isinstance(par, ast.Try) and block is par.orelse:
            # the `else:` clause of a try runs right after its body completed normally
            v = _last_value_in(par.body, name, fn, allow_calls)
            if v is None:
                return None
            if v != "NONE":
                return v if (allow_calls or is_pure(v)) else None
        if isinstance(par, ast.ExceptHandler):
            par = getattr(par, "_p", None)
        if isinstance(par, (ast.With, ast.AsyncWith)):
            hit = [it for it in par.items if isinstance(it.optional_vars, ast.Name) and it.optional_vars.id == name]
            if hit:
                return hit[0].context_expr if allow_calls else None
        if isinstance(par, (ast.For, ast.AsyncFor, ast.While)):
            # loop-carried: a store anywhere in the loop may reach the use through the back edge
            if any(isinstance(t, ast.Name) and t.id == name for t, _ in stores_in(par)):
                return None
        if isinstance(par, ast.Try) and any(cur is x for x in par.finalbody + [y for h in par.handlers for y in h.body]):
            # after an exception anything bound in the try body may or may not have been bound
            if any(isinstance(t, ast.Name) and t.id == name for x in par.body for t, _ in stores_in(x)):
                return None
        if isinstance(par, (ast.FunctionDef, ast.AsyncFunctionDef, ast.Lambda, ast.ClassDef)) and par is not fn:
            return None
        cur = par
    return ENTRY if cur is fn else None


ENTRY = ast.Name(id="<entry>", ctx=ast.Load())      # sentinel: no store reaches the site - the name still holds its value at function entry


def definition(fn, name, use=None, allow_calls=False, opaque=()):
    """The pure expression defining local `name` (as seen from `use` when given), or None."""
    b, params = _bindings(fn)
    if name not in b:
        return None
    if use is not None:
        r = reaching_definition(fn, name, use, allow_calls)
        return r
    if name in params or len(b[name]) != 1:
        return None
    v = _value_bound_by(b[name][0][1], name)
    if v is None and isinstance(b[name][0][1], (ast.With, ast.AsyncWith)) and allow_calls:
        v = next((it.context_expr for it in b[name][0][1].items if it.optional_vars is b[name][0][0]), None)
    if v is None or not (allow_calls or is_pure(v)):
        return None
    # without a use site: operands must be bound at most once in the function
    if any(isinstance(n, ast.Name) and n.id in b and (len(b[n.id]) > 1 or n.id in params) and n.id not in opaque for n in ast.walk(v)):
        return None
    return v


class _Unstable(Exception):
    pass


_MUTATORS = {"add", "append", "extend", "update", "pop", "popitem", "clear", "setdefault", "insert", "remove", "discard", "sort", "reverse", "write", "writelines", "seek",
             "truncate", "close", "send", "throw", "__setitem__", "__delitem__"}
_mut_cache: dict = {}


_CONTAINER_CTORS = {"set", "list", "dict", "bytearray", "deque", "defaultdict", "OrderedDict"}


def call_text(c):
    return norm(c.func) if isinstance(c, ast.Call) else ""


def mutated_names(fn):
    """Local names whose object is modified in place somewhere in fn (`x.append(..)`, `x[k] = ..`, `del x[k]`, `x.attr = ..`):
    the expression that created the object does not describe its later state, so such names are never replaced by their definition."""
    k = id(fn)
    if k not in _mut_cache:
        out = set()
        for n in ast.walk(fn):
            if isinstance(n, ast.Call) and isinstance(n.func, ast.Attribute) and n.func.attr in _MUTATORS and isinstance(n.func.value, ast.Name):
                out.add(n.func.value.id)
            if isinstance(n, (ast.Subscript, ast.Attribute)) and isinstance(n.ctx, (ast.Store, ast.Del)) and isinstance(n.value, ast.Name):
                out.add(n.value.id)
        _mut_cache[k] = (fn, out)
    return _mut_cache[k][1]


def _pos(n):
    return (getattr(n, "lineno", 0), getattr(n, "col_offset", 0))


def _rebound_between(fn, name, site, use) -> bool:
    """`name` read at `site` (inside a definition) may hold another value when control reaches `use`."""
    b, _ = _bindings(fn)
    if name not in b:
        return False
    s_st, u_st = _stmt_of(site), _stmt_of(use)
    if s_st is None or u_st is None:
        return True
    lo, hi = s_st.lineno, u_st.lineno      # (statements are numbered sequentially; a compound statement reads its header first)
    for t, st in b[name]:
        if lo < st.lineno <= hi and st is not u_st:
            return True
        if st is u_st and isinstance(u_st, (ast.Assign, ast.AugAssign, ast.AnnAssign)) and s_st is not u_st:
            # `x = f(x)` at the use statement itself: the read happens before the store - fine
            continue
    # loops that contain the use but not the site: any store in them can come round the back edge
    a = getattr(u_st, "_p", None)
    while a is not None and a is not fn:
        if isinstance(a, (ast.For, ast.AsyncFor, ast.While)) and not any(x is s_st for x in ast.walk(a)):
            if any(isinstance(t, ast.Name) and t.id == name for t, _ in stores_in(a)):
                return True
        a = getattr(a, "_p", None)
    return False


def expand(fn, e, depth: int = 12, keep=(), use=None, allow_calls=False):
    """Copy of e with locals replaced by the expressions that define them (flow-sensitively, see reaching_definition). Every name is
    read at its own site: in `x = a + 1; a = 5; f(x)` the `a` of `a + 1` is the old one, so `x` is only replaced when the names
    left free in its definition cannot have been rebound between the definition and the use (otherwise `x` stays).
    With allow_calls (see trace()) definitions containing arbitrary calls are substituted too: the result then describes *where a
    value comes from* (a backward slice as one expression), not an expression that could replace the original."""
    if fn is None or depth <= 0:
        return e
    if use is None:
        use = e if hasattr(e, "_p") else None

    def ex(n, depth, outer):
        if isinstance(n, list):
            return [ex(x, depth, outer) for x in n]
        if not isinstance(n, ast.AST):
            return n
        if isinstance(n, ast.Lambda):
            return clone(n)
        if isinstance(n, ast.Name) and isinstance(n.ctx, ast.Load):
            site = n if hasattr(n, "_p") else use
            if n.id not in keep and depth > 0 and (allow_calls or n.id not in mutated_names(fn)):
                d = definition(fn, n.id, site, allow_calls, keep)
                if d is not None and d is not ENTRY and allow_calls and n.id in mutated_names(fn) and isinstance(d, (ast.Call, ast.List, ast.Set, ast.Dict, ast.ListComp, ast.SetComp, ast.DictComp)) \
                        and not (isinstance(d, ast.Call) and isinstance(d.func, ast.Attribute)) and (call_text(d) in _CONTAINER_CTORS or not isinstance(d, ast.Call)):
                    d = None            # a container built empty and filled later: its constructor says nothing about its content
                if d is ENTRY:
                    # a parameter read before any rebinding; when it is rebound later the entry value gets its own symbol
                    b_, params_ = _bindings(fn)
                    return ast.Name(id=f"{n.id}__0" if (n.id in params_ and n.id in b_) else n.id, ctx=ast.Load())
                if d is not None:
                    try:
                        return ex(d, depth - 1, outer if outer is not None else site)
                    except _Unstable:
                        pass
            if outer is not None and hasattr(n, "_p") and n.id not in keep and _rebound_between(fn, n.id, n, outer):
                raise _Unstable(n.id)
            return ast.Name(id=n.id, ctx=ast.Load())
        new = type(n)()
        for f in n._fields:
            if hasattr(n, f):
                setattr(new, f, ex(getattr(n, f), depth, outer))
        for a_ in ("lineno", "col_offset", "end_lineno", "end_col_offset"):
            if hasattr(n, a_):
                setattr(new, a_, getattr(n, a_))
        return new
    try:
        return ex(e, depth, None)
    except _Unstable:
        return clone(e)


def trace(fn, e, depth: int = 12, use=None, keep=()):
    """Backward value slice of e as one expression (definitions with calls included; `with E as v` makes v == E).
    Names in `keep` stay as they are and are treated as opaque symbols (not checked for rebinding)."""
    return expand(fn, e, depth=depth, use=use, allow_calls=True, keep=keep)


# ---------------------------------------------------------------------------------------------------------------
_FLIP = {ast.Gt: ast.Lt, ast.GtE: ast.LtE}
_NEG = {ast.Lt: ast.GtE, ast.LtE: ast.Gt, ast.Gt: ast.LtE, ast.GtE: ast.Lt, ast.Eq: ast.NotEq, ast.NotEq: ast.Eq, ast.Is: ast.IsNot, ast.IsNot: ast.Is,
        ast.In: ast.NotIn, ast.NotIn: ast.In}
_NAME = {ast.Lt: "<", ast.LtE: "<=", ast.Eq: "==", ast.NotEq: "!=", ast.Is: "is", ast.IsNot: "is not", ast.In: "in", ast.NotIn: "not in"}


def _cmp(op, a, b):
    if type(op) in _FLIP:
        op, a, b = _FLIP[type(op)](), b, a
    ca, cb = cx(a), cx(b)
    k = _NAME[type(op)]
    if k in ("==", "!=", "is", "is not"):
        return ("cmp", k, frozenset((ca, cb)) if ca != cb else (ca, cb))
    return ("cmp", k, ca, cb)


def _bool(e, neg=False):
    """Negation normal form of a boolean-valued expression."""
    if isinstance(e, ast.UnaryOp) and isinstance(e.op, ast.Not):
        return _bool(e.operand, not neg)
    if isinstance(e, ast.BoolOp):
        is_and = isinstance(e.op, ast.And) != neg
        parts = []
        for v in e.values:
            r = _bool(v, neg)
            if r[0] == ("and" if is_and else "or"):
                parts.extend(r[1])
            else:
                parts.append(r)
        return ("and" if is_and else "or", frozenset(parts))
    if isinstance(e, ast.Compare):
        parts = []
        left = e.left
        for op, right in zip(e.ops, e.comparators):
            o = _NEG[type(op)]() if neg else op
            parts.append(_cmp(o, left, right))
            left = right
        if len(parts) == 1:
            return parts[0]
        return ("or" if neg else "and", frozenset(parts))
    if isinstance(e, ast.Constant) and isinstance(e.value, bool):
        return ("const", e.value != neg)
    if isinstance(e, ast.IfExp):
        # truth value of `b if t else o`:  (t and b) or (not t and o), with the constant branches folded
        t, b, o = e.test, e.body, e.orelse
        def const(x):
            return x.value if isinstance(x, ast.Constant) and isinstance(x.value, bool) else None
        if const(o) is False:
            return _bool(ast.BoolOp(op=ast.And(), values=[t, b]), neg)
        if const(o) is True:
            return _bool(ast.BoolOp(op=ast.Or(), values=[ast.UnaryOp(op=ast.Not(), operand=t), b]), neg)
        if const(b) is False:
            return _bool(ast.BoolOp(op=ast.And(), values=[ast.UnaryOp(op=ast.Not(), operand=t), o]), neg)
        if const(b) is True:
            return _bool(ast.BoolOp(op=ast.Or(), values=[t, o]), neg)
    c = cx(e)
    return ("not", c) if neg else c


def _falsy_const(x):
    return isinstance(x, ast.Constant) and (x.value is None or x.value is False or x.value == 0 or x.value == "")


def _truthy_const(x):
    return isinstance(x, ast.Constant) and (x.value is True or (isinstance(x.value, (int, str)) and not isinstance(x.value, bool) and bool(x.value)))


def truth_nnf(e, neg=False):
    """AST of the truthiness of e (negated when neg) in negation normal form: negations pushed through and/or/not and through
    conditional expressions (`X if t else None` is true iff `t and X`; in general `(t and a) or (not t and b)`), constants folded."""
    T, F = ast.Constant(value=True), ast.Constant(value=False)

    def mk(op, vals):
        flat = []
        for v in vals:
            if isinstance(v, ast.BoolOp) and isinstance(v.op, op):
                flat.extend(v.values)
            else:
                flat.append(v)
        absorbing = isinstance(op(), ast.Or)
        out = []
        for v in flat:
            if isinstance(v, ast.Constant) and isinstance(v.value, bool):
                if v.value == absorbing:
                    return T if absorbing else F
                continue
            if norm(v) not in {norm(o) for o in out}:
                out.append(v)
        if not out:
            return F if absorbing else T
        return out[0] if len(out) == 1 else ast.BoolOp(op=op(), values=out)
    if isinstance(e, ast.UnaryOp) and isinstance(e.op, ast.Not):
        return truth_nnf(e.operand, not neg)
    if isinstance(e, ast.BoolOp):
        is_and = isinstance(e.op, ast.And) != neg
        return mk(ast.And if is_and else ast.Or, [truth_nnf(v, neg) for v in e.values])
    if isinstance(e, ast.IfExp):
        pos = mk(ast.Or, [mk(ast.And, [truth_nnf(e.test), truth_nnf(e.body)]), mk(ast.And, [truth_nnf(e.test, True), truth_nnf(e.orelse)])])
        if not neg:
            return pos
        return mk(ast.And, [mk(ast.Or, [truth_nnf(e.test, True), truth_nnf(e.body, True)]), mk(ast.Or, [truth_nnf(e.test), truth_nnf(e.orelse, True)])])
    if isinstance(e, ast.Call) and isinstance(e.func, ast.Name) and e.func.id == "bool" and len(e.args) == 1 and not e.keywords:
        return truth_nnf(e.args[0], neg)
    if _falsy_const(e):
        return T if neg else F
    if _truthy_const(e):
        return F if neg else T
    if isinstance(e, ast.Compare) and len(e.ops) == 1 and isinstance(e.ops[0], (ast.Is, ast.IsNot)) and isinstance(e.comparators[0], ast.Constant) and e.comparators[0].value is None:
        # `X is None` / `X is not None` through conditional expressions and for values that are obviously (not) None
        want_none = isinstance(e.ops[0], ast.Is) != neg
        x = e.left
        if isinstance(x, ast.IfExp):
            mkc = lambda v: ast.Compare(left=v, ops=[ast.Is() if want_none else ast.IsNot()], comparators=[ast.Constant(value=None)])  # noqa: E731
            return mk(ast.Or, [mk(ast.And, [truth_nnf(x.test), truth_nnf(mkc(x.body))]), mk(ast.And, [truth_nnf(x.test, True), truth_nnf(mkc(x.orelse))])])
        if isinstance(x, ast.Constant):
            return T if (x.value is None) == want_none else F
        if isinstance(x, (ast.Tuple, ast.List, ast.Dict, ast.Set, ast.JoinedStr, ast.ListComp, ast.DictComp, ast.SetComp, ast.GeneratorExp)) or (
                isinstance(x, ast.Call) and isinstance(x.func, ast.Name) and x.func.id in ("tuple", "list", "dict", "set", "frozenset", "str", "bytes", "int", "float", "bool")):
            return F if want_none else T
        return ast.Compare(left=x, ops=[ast.Is() if want_none else ast.IsNot()], comparators=[ast.Constant(value=None)])
    if neg and isinstance(e, ast.Compare) and len(e.ops) == 1:
        return ast.Compare(left=e.left, ops=[_NEG[type(e.ops[0])]()], comparators=e.comparators)
    return ast.UnaryOp(op=ast.Not(), operand=e) if neg else e


def disjuncts(e):
    """Top-level disjuncts of the truthiness of e (truth_nnf, with `x or (not x and y)` absorbed to `x or y`)."""
    t = truth_nnf(e)
    ds = list(t.values) if isinstance(t, ast.BoolOp) and isinstance(t.op, ast.Or) else [t]
    # `x is None` is one way of `not x`: beside the disjunct `not x` it adds nothing
    nots = {norm(d.operand) for d in ds if isinstance(d, ast.UnaryOp) and isinstance(d.op, ast.Not)}
    ds = [d for d in ds if not (isinstance(d, ast.Compare) and len(d.ops) == 1 and isinstance(d.ops[0], ast.Is) and isinstance(d.comparators[0], ast.Constant)
                                and d.comparators[0].value is None and norm(d.left) in nots)]
    for _round in range(4):          # absorption to a fixed point: a disjunct freed of one conjunct can absorb in the next one
        new_ds = _absorb_once(ds)
        if [norm(d) for d in new_ds] == [norm(d) for d in ds]:
            break
        ds = new_ds
    nots = {norm(d.operand) for d in ds if isinstance(d, ast.UnaryOp) and isinstance(d.op, ast.Not)}
    ds = [d for d in ds if not (isinstance(d, ast.Compare) and len(d.ops) == 1 and isinstance(d.ops[0], ast.Is) and isinstance(d.comparators[0], ast.Constant)
                                and d.comparators[0].value is None and norm(d.left) in nots)]
    return ds


def _absorb_once(ds):
    plain = {norm(d) for d in ds if not (isinstance(d, ast.BoolOp) and isinstance(d.op, ast.And))}
    out = []
    for d in ds:
        if isinstance(d, ast.BoolOp) and isinstance(d.op, ast.And):
            rest = [c for c in d.values if norm(truth_nnf(c, True)) not in plain]      # `p or (not p and q)` == `p or q`
            if len(rest) < len(d.values):
                if not rest:
                    continue
                d = rest[0] if len(rest) == 1 else ast.BoolOp(op=ast.And(), values=rest)
                if isinstance(d, ast.BoolOp) and isinstance(d.op, ast.Or):
                    out.extend(d.values)
                    continue
        if norm(d) not in {norm(o) for o in out}:
            out.append(d)
    # flatten ors produced by absorption
    flat = []
    for d in out:
        for x in (d.values if isinstance(d, ast.BoolOp) and isinstance(d.op, ast.Or) else [d]):
            if norm(x) not in {norm(o) for o in flat}:
                flat.append(x)
    return flat


def _stringy(e) -> bool:
    if isinstance(e, ast.Constant):
        return isinstance(e.value, (str, bytes))
    if isinstance(e, ast.JoinedStr):
        return True
    if isinstance(e, (ast.Name, ast.Attribute)):
        ident = e.id if isinstance(e, ast.Name) else e.attr
        return len(ident) >= 2 and ident.upper() == ident and any(c.isalpha() for c in ident)
    if isinstance(e, ast.BinOp) and isinstance(e.op, ast.Mult):
        return _stringy(e.left) or _stringy(e.right)
    if isinstance(e, ast.BinOp) and isinstance(e.op, ast.Mod):
        return _stringy(e.left)
    if isinstance(e, ast.Call):
        f = e.func
        if isinstance(f, ast.Name) and f.id in ("str", "repr", "cursor_up", "cursor_down", "cursor_forward", "cursor_backward"):
            return True
        if isinstance(f, ast.Attribute) and f.attr in ("join", "format", "decode"):
            return True
    return False


def _cat_parts(e):
    """Flatten string-building expressions into a list of parts (str literals or canonical sub-terms), or None."""
    if isinstance(e, ast.Constant) and isinstance(e.value, (str, bytes)):
        return [e.value]
    if isinstance(e, ast.JoinedStr):
        out = []
        for v in e.values:
            if isinstance(v, ast.Constant):
                out.append(v.value)
            elif isinstance(v, ast.FormattedValue) and v.conversion == -1 and v.format_spec is None:
                out.append(("fmt", cx(v.value)))
            else:
                out.append(("fmtspec", norm(v)))
        return out
    if isinstance(e, ast.BinOp) and isinstance(e.op, ast.Add):
        ops = []

        def flat(x):
            if isinstance(x, ast.BinOp) and isinstance(x.op, ast.Add):
                flat(x.left)
                flat(x.right)
            else:
                ops.append(x)
        flat(e)
        if not any(_stringy(o) for o in ops):
            return None
        out = []
        for o in ops:
            p = _cat_parts(o) if not isinstance(o, ast.BinOp) or not isinstance(o.op, ast.Add) else None
            out.extend(p if p is not None else [("fmt", cx(o))])
        return out
    if isinstance(e, ast.BinOp) and isinstance(e.op, ast.Mult):
        for s, k in ((e.left, e.right), (e.right, e.left)):
            if isinstance(k, ast.Constant) and isinstance(k.value, int) and not isinstance(k.value, bool) and 0 <= k.value <= 4:
                p = _cat_parts(s)
                if p is not None:
                    return p * k.value
                if _stringy(s):
                    return [("fmt", cx(s))] * k.value
        return None
    if isinstance(e, ast.Call) and isinstance(e.func, ast.Attribute) and e.func.attr == "join" and isinstance(e.func.value, ast.Constant) and e.func.value.value == "" \
            and len(e.args) == 1 and isinstance(e.args[0], (ast.Tuple, ast.List)):
        out = []
        for x in e.args[0].elts:
            p = _cat_parts(x)
            out.extend(p if p is not None else [("fmt", cx(x))])
        return out
    if isinstance(e, ast.Call) and isinstance(e.func, ast.Name) and e.func.id == "str" and len(e.args) == 1:
        return [("fmt", cx(e.args[0]))]
    return None


def cx(e):
    """Canonical hashable form (see module docstring)."""
    if isinstance(e, (ast.BoolOp, ast.Compare)) or (isinstance(e, ast.UnaryOp) and isinstance(e.op, ast.Not)):
        return _bool(e)
    if isinstance(e, ast.IfExp):
        t, b, o = e.test, e.body, e.orelse
        if norm(t) == norm(b):
            return _bool(ast.BoolOp(op=ast.Or(), values=[b, o]))
        if isinstance(t, ast.UnaryOp) and isinstance(t.op, ast.Not) and norm(t.operand) == norm(o):
            return _bool(ast.BoolOp(op=ast.Or(), values=[o, b]))
        if norm(t) == norm(o):
            return _bool(ast.BoolOp(op=ast.And(), values=[t, b]))        # `b if a else a`  ==  `a and b`
        if isinstance(t, ast.UnaryOp) and isinstance(t.op, ast.Not) and norm(t.operand) == norm(b):
            return _bool(ast.BoolOp(op=ast.And(), values=[b, o]))        # `a if not a else o`  ==  `a and o`
        ct, cn = _bool(t), _bool(t, neg=True)
        # orientation: of a test and its negation the one with the smaller printed form is canonical
        if repr(cn) < repr(ct):
            return ("ifexp", cn, cx(o), cx(b))
        return ("ifexp", ct, cx(b), cx(o))
    parts = _cat_parts(e) if not (isinstance(e, (ast.Name, ast.Attribute))) else None
    if parts is not None and (len(parts) > 1 or isinstance(e, (ast.JoinedStr, ast.BinOp, ast.Call))):
        merged = []
        for p in parts:
            if isinstance(p, (str, bytes)) and merged and isinstance(merged[-1], type(p)):
                merged[-1] = merged[-1] + p
            elif p != "" and p != b"":
                merged.append(p)
        return ("cat", tuple(merged))
    if isinstance(e, (ast.BinOp, ast.UnaryOp)) or (isinstance(e, ast.Constant) and isinstance(e.value, int) and not isinstance(e.value, bool)):
        try:
            p = affine.poly(e, None)
            return ("poly", tuple(sorted(p.items())))
        except affine.NotPoly:
            pass
        except Exception:
            pass
    if isinstance(e, ast.Constant):
        return ("const", e.value if not isinstance(e.value, (bytes,)) else ("bytes", e.value))
    if isinstance(e, ast.Name):
        return ("name", e.id)
    if isinstance(e, ast.Attribute):
        return ("attr", cx(e.value), e.attr)
    if isinstance(e, ast.Subscript):
        return ("sub", cx(e.value), norm(e.slice) if not isinstance(e.slice, ast.expr) or isinstance(e.slice, ast.Slice) else cx(e.slice))
    if isinstance(e, ast.Call):
        return ("call", cx(e.func), tuple(cx(a.value) if isinstance(a, ast.Starred) else cx(a) for a in e.args),
                tuple(sorted((k.arg or "**", cx(k.value)) for k in e.keywords)))
    if isinstance(e, (ast.Tuple, ast.List)):
        return ("seq", tuple(cx(x.value) if isinstance(x, ast.Starred) else cx(x) for x in e.elts))
    if isinstance(e, ast.Set):
        return ("set", frozenset(cx(x) for x in e.elts))
    if isinstance(e, ast.Starred):
        return ("star", cx(e.value))
    return ("raw", norm(e))


def _parse(x):
    return ast.parse(x, mode="eval").body if isinstance(x, str) else x


def same(fn, a, b, keep=()) -> bool:
    a, b = _parse(a), _parse(b)
    use = a if hasattr(a, "_p") else (b if hasattr(b, "_p") else None)
    try:
        return cx(expand(fn, a, keep=keep, use=use)) == cx(expand(fn, b, keep=keep, use=use))
    except RecursionError:
        return False


def same_bool(fn, a, b, expand_b=True) -> bool:
    """Boolean equivalence up to the canonical form; `b` (usually the expected text) is expanded at the site of `a` unless
    expand_b is False (then its names are taken literally)."""
    a, b = _parse(a), _parse(b)
    use = a if hasattr(a, "_p") else (b if hasattr(b, "_p") else None)
    return _bool(expand(fn, a, use=use)) == _bool(expand(fn, b, use=use) if expand_b else b)


def literals(fn, n):
    """Condition literals under which n runs, each in canonical form (guard clauses and enclosing tests, conjunctions split)."""
    from .astutil import guards
    out = set()

    def add(c):
        if isinstance(c, tuple) and c and c[0] == "and":
            for x in c[1]:
                add(x)
        else:
            out.add(c)
    for t, b in guards(n):
        add(_bool(expand(fn, t), neg=not b))
    return out


def lit(fn, src, neg=False):
    return _bool(expand(fn, _parse(src)), neg=neg)


def origin(fn, e, depth: int = 6):
    """Follow alias chains of single-binding locals (plain names and components of tuple displays) regardless of purity:
    returns the expression the value ultimately comes from (e.g. the tcgetattr() call behind `saved = old`)."""
    b, params = _bindings(fn)
    cur = e
    for _ in range(depth):
        if not isinstance(cur, ast.Name) or cur.id in params or cur.id not in b or len(b[cur.id]) != 1:
            return cur
        t, st = b[cur.id][0]
        if isinstance(st, (ast.Assign, ast.AnnAssign)) and getattr(st, "value", None) is not None:
            tgt = st.targets[0] if isinstance(st, ast.Assign) else st.target
            if tgt is t:
                cur = st.value
                continue
            if isinstance(tgt, (ast.Tuple, ast.List)):
                v = _unpack_component(tgt, st.value, cur.id)
                if v is not None:
                    cur = v
                    continue
        if isinstance(st, ast.With):
            for it in st.items:
                if it.optional_vars is t:
                    return it.context_expr
        return cur
    return cur


def econds(fn, n):
    """astutil.conds(n) with every guard test first expanded (locals -> definitions): the set of normalised literals known to
    hold where n executes, e.g. {'not self._closed', 'self._finalize_data'}."""
    from .astutil import guards
    out = set()

    def add(t, pos):
        if isinstance(t, ast.UnaryOp) and isinstance(t.op, ast.Not):
            add(t.operand, not pos)
        elif isinstance(t, ast.BoolOp) and isinstance(t.op, ast.And) and pos:
            for v in t.values:
                add(v, True)
        elif isinstance(t, ast.BoolOp) and isinstance(t.op, ast.Or) and not pos:
            for v in t.values:
                add(v, False)
        else:
            out.add(norm(t) if pos else f"not {norm(t)}")
    for t, b in guards(n):
        add(expand(fn, t), b)
    return out


def tconds(fn, n, keep=()):
    """The conjuncts known to hold where n executes, from its guards *traced* (locals, helper results and merged branch values replaced
    by where they come from), put in negation normal form (truth_nnf) and split at top-level conjunctions; walruses dropped.
    Disjunctions stay whole. -> set of normalised source strings."""
    from .astutil import guards

    class _NoWalrus(ast.NodeTransformer):
        def visit_NamedExpr(self, x):
            return self.visit(x.value)
    lits = []
    for t, b in guards(n):
        tt = truth_nnf(_NoWalrus().visit(clone(trace(fn, t, keep=keep))), neg=not b)
        for v in (tt.values if isinstance(tt, ast.BoolOp) and isinstance(tt.op, ast.And) else [tt]):
            if not (isinstance(v, ast.Constant) and v.value is True):
                lits.append(v)
    # the conjuncts hold together: a simple one (`x`, `not x`, `x is None`) is a fact under which the others are simplified
    # (`(None if raised else T) if v else None) >= K` with the facts `v`, `not raised` is `T >= K`)
    for _ in range(3):
        facts = {}
        for v in lits:
            if isinstance(v, ast.UnaryOp) and isinstance(v.op, ast.Not) and not isinstance(v.operand, (ast.BoolOp, ast.IfExp)):
                facts[norm(v.operand)] = False
            elif isinstance(v, (ast.Name, ast.Attribute, ast.Call, ast.Subscript)):
                facts[norm(v)] = True
        if not facts:
            break
        new = []
        changed = False
        for v in lits:
            if norm(v) in facts or (isinstance(v, ast.UnaryOp) and isinstance(v.op, ast.Not) and norm(v.operand) in facts):
                new.append(v)
                continue
            v2 = truth_nnf(specialize(v, facts))
            if norm(v2) != norm(v):
                changed = True
            for w in (v2.values if isinstance(v2, ast.BoolOp) and isinstance(v2.op, ast.And) else [v2]):
                if not (isinstance(w, ast.Constant) and w.value is True):
                    new.append(w)
        lits = new
        if not changed:
            break
    out = set()
    for v in lits:
        if isinstance(v, ast.BoolOp) and isinstance(v.op, ast.Or):
            ds = disjuncts(v)                       # `x or (not x and y)` is `x or y`
            v = ds[0] if len(ds) == 1 else ast.BoolOp(op=ast.Or(), values=ds)
        out.add(norm(v))
    return out


def tliterals(fn, n, keep=()):
    """tconds(n) as canonical forms (comparable across functions and spellings)."""
    return {_bool(ast.parse(l_, mode="eval").body) for l_ in tconds(fn, n, keep)}


def anon(fn, node) -> str:
    """Normalised source of node with the function's local variable names replaced by positional placeholders
    (identity of a finding must survive a rename of locals)."""
    b, params = _bindings(fn) if fn is not None else ({}, set())
    local = (set(b) | params) - {"self", "cls"}
    n2 = clone(node)
    seen = {}
    for x in ast.walk(n2):
        if isinstance(x, ast.Name) and x.id in local:
            seen.setdefault(x.id, f"v{len(seen) + 1}")
    order = {}
    # deterministic numbering: by first occurrence in the unparsed text
    txt = norm(node)
    for nm in sorted(seen, key=lambda k: (txt.find(k) if txt.find(k) >= 0 else 10**6, k)):
        order[nm] = f"${len(order) + 1}"
    for x in ast.walk(n2):
        if isinstance(x, ast.Name) and x.id in order:
            x.id = order[x.id].replace("$", "V")
    return norm(n2)


def specialize(e, facts: dict):
    """Copy of e simplified under boolean facts {source of a condition: True/False}: conditional expressions, `and`/`or`,
    `not`, and the `text * cond` idiom (a string repeated True/False times) are resolved where the condition is known."""
    def known(t):
        k = norm(t)
        if k in facts:
            return facts[k]
        if isinstance(t, ast.UnaryOp) and isinstance(t.op, ast.Not):
            v = known(t.operand)
            return None if v is None else (not v)
        if isinstance(t, ast.BoolOp):
            vals = [known(v) for v in t.values]
            if isinstance(t.op, ast.And):
                if any(v is False for v in vals):
                    return False
                if all(v is True for v in vals):
                    return True
            else:
                if any(v is True for v in vals):
                    return True
                if all(v is False for v in vals):
                    return False
        if isinstance(t, ast.Constant) and isinstance(t.value, bool):
            return t.value
        return None

    class T(ast.NodeTransformer):
        def visit_IfExp(self, n):
            v = known(n.test)
            if v is True:
                return self.visit(n.body)
            if v is False:
                return self.visit(n.orelse)
            return self.generic_visit(n)

        def visit_BinOp(self, n):
            self.generic_visit(n)
            if isinstance(n.op, ast.Mult):
                for s_, c in ((n.left, n.right), (n.right, n.left)):
                    v = known(c)
                    if v is True:
                        return s_
                    if v is False:
                        return ast.copy_location(ast.Constant(value=""), n)
            return n

        def visit_BoolOp(self, n):
            # value semantics: `a and b` is a when a is falsy, `a or b` is a when a is truthy
            is_and = isinstance(n.op, ast.And)
            vals = []
            for i, x in enumerate(n.values):
                kx = known(x)
                last = i == len(n.values) - 1
                if kx is None:
                    vals.append(self.visit(x))
                    continue
                if (kx is True) == is_and:
                    # neutral operand: skipped unless it is the last one (then it is the value)
                    if last:
                        vals.append(self.visit(x))
                    continue
                vals.append(self.visit(x))      # decisive operand: evaluation stops here
                break
            if not vals:
                return self.visit(n.values[-1])
            if len(vals) == 1:
                return vals[0]
            n.values = vals
            return n
    return T().visit(clone(e))


def flat_cat(fn, e, facts=None):
    """The flat list of string parts of e (after expansion of locals and specialisation), or None if e is not string-building."""
    x = expand(fn, e)
    if facts:
        x = specialize(x, facts)
    c = cx(x)
    if isinstance(c, tuple) and c and c[0] == "cat":
        return list(c[1])
    if isinstance(c, tuple) and c and c[0] == "const" and c[1] == "":
        return []
    return [("fmt", c)]
