"""E8 (sign part) - proves `expr >= 1` for operands of raw cursor/erase templates from a small facts table:
  * names unpacked/bound from self.rendered_size / rendered_width / rendered_height are >= 1 (C04.R1: _valid_size clamps),
  * max(a, b, ...) >= 1 if some argument is, len(x) is not assumed positive,
  * e - k (k >= 1 literal) is >= 1 only under a dominating guard `e > k` / `e >= k+1` (If / IfExp / `and` prefix),
  * positive int literals.
Anything else is 'not proven' (the rule then reports the operand)."""
from __future__ import annotations

import ast

from .astutil import body_walk, guards, norm, stores_in

FACT_SOURCES = ("self.rendered_size", "self.rendered_width", "self.rendered_height", "image.rendered_size")


def _bindings(fn, name):
    return [st for t, st in stores_in(ast.Module(body=fn.body, type_ignores=[])) if isinstance(t, ast.Name) and t.id == name]


def ge1(e, fn, at, depth=0) -> tuple[bool, str]:
    """(proved, reason)"""
    if depth > 6:
        return False, "too deep"
    if isinstance(e, ast.Constant) and isinstance(e.value, int) and not isinstance(e.value, bool):
        return e.value >= 1, f"literal {e.value}"
    if isinstance(e, ast.Attribute) and norm(e) in FACT_SOURCES[1:3]:
        return True, f"{norm(e)} >= 1 (size clamp)"
    if isinstance(e, ast.Name):
        bs = _bindings(fn, e.id)
        if not bs:
            return False, f"`{e.id}` is not bound in this function"
        for b in bs:
            if isinstance(b, ast.Assign) and isinstance(b.targets[0], ast.Tuple) and norm(b.value) in FACT_SOURCES:
                continue
            if isinstance(b, ast.Assign) and isinstance(b.targets[0], ast.Name):
                ok, why = ge1(b.value, fn, b, depth + 1)
                if ok:
                    continue
                return False, f"`{e.id}` = {norm(b.value)}: {why}"
            return False, f"`{e.id}` bound by `{norm(b)[:50]}`"
        return True, f"`{e.id}` comes from the clamped rendered size"
    if isinstance(e, ast.Call) and isinstance(e.func, ast.Name) and e.func.id == "max":
        for a in e.args:
            ok, why = ge1(a, fn, at, depth + 1)
            if ok:
                return True, f"max(...) with {norm(a)} >= 1"
        return False, "no argument of max() is proven >= 1"
    if isinstance(e, ast.BinOp) and isinstance(e.op, ast.Sub) and isinstance(e.right, ast.Constant) and isinstance(e.right.value, int) and e.right.value >= 0:
        k = e.right.value
        base = norm(e.left)
        for t, b in guards(at):
            if not b or not isinstance(t, ast.Compare) or len(t.ops) != 1:
                continue
            l, r, op = norm(t.left), t.comparators[0], t.ops[0]
            if l == base and isinstance(r, ast.Constant) and isinstance(r.value, int):
                if (isinstance(op, ast.Gt) and r.value >= k) or (isinstance(op, ast.GtE) and r.value >= k + 1):
                    return True, f"guarded by `{norm(t)}`"
        return False, f"`{norm(e)}` can be 0: no dominating guard `{base} > {k}`"
    if isinstance(e, ast.BinOp) and isinstance(e.op, ast.Add):
        lo, _ = ge1(e.left, fn, at, depth + 1)
        ro, _ = ge1(e.right, fn, at, depth + 1)
        if lo or ro:
            # the other side must be known non-negative: only literals/len()/ge1 accepted
            other = e.right if lo else e.left
            if (isinstance(other, ast.Constant) and isinstance(other.value, int) and other.value >= 0) or ge1(other, fn, at, depth + 1)[0]:
                return True, "sum of a positive and a non-negative term"
    return False, f"`{norm(e)}` is not proven >= 1"
