"""E1 - source model: parses every module of src/term_image, qualified names, parents, classes.

Nothing of the repository is imported or executed; files are only parsed with `ast`.
An `overlay` ({relative path: source text}) replaces files in memory (used by the mutant runner).
"""
from __future__ import annotations

import ast
import hashlib
import os

REPO = os.environ.get("TIV_REPO", "/repo")
PKG = "src/term_image"


class AnalysisError(Exception):
    """The checker cannot decide (vanished anchor, unparsable file, unmodelled construct). Exit 2."""


FUNC = (ast.FunctionDef, ast.AsyncFunctionDef)
SCOPE = (ast.FunctionDef, ast.AsyncFunctionDef, ast.Lambda, ast.ClassDef)


def _blocks(fn):
    """Every statement list directly or indirectly inside fn's body that is not inside a nested def/class."""
    out = []

    def rec(stmts):
        out.append(stmts)
        for st in stmts:
            if isinstance(st, (ast.FunctionDef, ast.AsyncFunctionDef, ast.ClassDef)):
                continue
            for f in ("body", "orelse", "finalbody"):
                v = getattr(st, f, None)
                if isinstance(v, list) and v and isinstance(v[0], ast.stmt):
                    rec(v)
            for h in getattr(st, "handlers", []) or []:
                rec(h.body)
    rec(fn.body)
    return out


class FileInfo:
    def __init__(self, rel: str, text: str):
        self.rel = rel
        self.text = text
        try:
            self.raw_tree = ast.parse(text, filename=rel)
        except SyntaxError as e:  # pragma: no cover
            raise AnalysisError(f"{rel}: does not parse: {e}") from None
        self.tree = self.raw_tree
        self.defs: dict[str, ast.AST] = {}
        self._annotate()
        self.raw_defs = self.defs
        self.inlined_artefacts: set[str] = set()
        self.clean_tree = ast.parse(text, filename=rel)    # un-annotated: source of callee bodies for the inliner
        self.clean_funcs = {s.name: s for s in self.clean_tree.body if isinstance(s, ast.FunctionDef)}
        # names imported from sibling modules of the package: local name -> (module path relative to the package, original name)
        self.imported: dict[str, tuple[str, str]] = {}
        here = rel.split("/")[:-1]
        for s in self.clean_tree.body:
            if isinstance(s, ast.ImportFrom) and s.level >= 1 and len(here) >= s.level - 1:
                base = here[: len(here) - (s.level - 1)] + (s.module.split(".") if s.module else [])
                for a in s.names:
                    self.imported[a.asname or a.name] = ("/".join(base), a.name)

    def normalise(self, model) -> None:
        """Build the normalised tree the rules work on (see tiv/normalize.py); the raw tree stays in raw_tree."""
        import copy

        from .normalize import is_artefact, normalize_function

        new = ast.parse(self.text, filename=self.rel)      # fresh, un-annotated copy (no parent links -> cheap deep copies)
        inlined: set[str] = set()
        self._undo_closure_renames(new)
        from .normalize import substitute_new_constants
        self.new_constants = substitute_new_constants(self.rel, new)

        def process(container, owner_cls):
            for i, st in enumerate(container):
                if isinstance(st, ast.ClassDef):
                    raw_cls = st
                    process(st.body, raw_cls)
                elif owner_cls is not None and not isinstance(st, (ast.FunctionDef, ast.AsyncFunctionDef)):
                    # class-level statements (`x = property(lambda self: helper(self))`): expression-level inlining and canonical forms
                    from .normalize import Inliner as _Inl, _Canon as _Cn
                    il = _Inl(model, self.rel, owner_cls)
                    il.aliases = {}
                    # (methods of the class are plain names at class level: `property(_getter)`; two passes: a getter may call another getter)
                    meths = {x.name: x for x in owner_cls.body if isinstance(x, ast.FunctionDef)}
                    for _ in range(2):
                        il._exprs(st, meths)
                    inlined.update(il.inlined)
                    for x in ast.walk(st):          # N18 inside lambdas of class-level statements
                        if isinstance(x, ast.Lambda):
                            for y in ast.walk(x.body):
                                if isinstance(y, ast.Attribute) and isinstance(y.value, ast.Name) and y.value.id == owner_cls.name and isinstance(y.value.ctx, ast.Load):
                                    y.value.id = "__class__"
                    container[i] = _Cn().visit(st)
                elif isinstance(st, (ast.FunctionDef,)):
                    nf, inl = normalize_function(model, self.rel, st, owner_cls)
                    inlined.update(inl)
                    # nested baseline closures: inline artefacts inside them too
                    container[i] = nf
        process(new.body, None)
        # module-level statements: artefact helpers called at import time (`_install_wrappers()`) are inlined there too
        from .normalize import Inliner
        mod_fn = ast.FunctionDef(name="<module>", args=ast.arguments(posonlyargs=[], args=[], kwonlyargs=[], kw_defaults=[], defaults=[]), body=new.body, decorator_list=[], lineno=1, col_offset=0)
        mi = Inliner(model, self.rel, None)
        mi.run(mod_fn)
        new.body = mod_fn.body
        inlined.update(mi.inlined)
        # sequential statement numbering (ordering by lineno stays meaningful after inlining); real lines in _srcline
        for n in ast.walk(new):
            if hasattr(n, "lineno"):
                n._srcline = n.lineno
        counter = [0]

        def number(stmts):
            for st in stmts:
                counter[0] += 1
                ln = counter[0]
                for x in ast.walk(st):
                    if hasattr(x, "lineno") and not isinstance(x, ast.stmt):
                        x.lineno = ln
                st.lineno = ln
                for f in ("body", "orelse", "finalbody"):
                    v = getattr(st, f, None)
                    if isinstance(v, list) and v and isinstance(v[0], ast.stmt):
                        number(v)
                if isinstance(st, ast.Try):
                    for h in st.handlers:
                        counter[0] += 1
                        h.lineno = counter[0]
                        number(h.body)
                st.end_lineno = counter[0]
        number(new.body)
        self.tree = new
        # the module itself can stand for a function in value tracing (tiv.sem): no parameters, its statements as body
        new.args = ast.arguments(posonlyargs=[], args=[], kwonlyargs=[], kw_defaults=[], defaults=[])
        new.name = "<module>"
        self.defs = {}
        self._annotate()
        from .normalize import baseline as _baseline
        new_classes = {c.name for c in new.body if isinstance(c, ast.ClassDef) and c.name not in _baseline().get(self.rel, set())}
        self.inlined_artefacts = {q for q, d in self.defs.items() if isinstance(d, ast.FunctionDef) and d.name in inlined and (
            is_artefact(self.rel, d, nested=isinstance(getattr(d, '_p', None), (ast.FunctionDef, ast.If, ast.With, ast.Try, ast.For, ast.While)))
            or (isinstance(getattr(d, '_p', None), ast.ClassDef) and d._p.name in new_classes and q.split(".")[0] in new_classes))}      # methods of a class that is itself new

    def _undo_closure_renames(self, tree) -> None:
        """A baseline closure (an anchor such as `_render_image.update_buffer`) that was merely renamed: when exactly one nested def of
        the baseline is missing from a function and exactly one new nested def appeared in it, the new one is given the old name
        (a consistent rename of a local function is behaviour-preserving; the rules then find their anchor and judge its body)."""
        from .normalize import baseline_qualnames
        base = baseline_qualnames().get(self.rel, set())
        if not base:
            return

        def visit(container, prefix):
            for st in container:
                if isinstance(st, ast.ClassDef):
                    visit(st.body, prefix + st.name + ".")
                elif isinstance(st, FUNC):
                    q = prefix + st.name
                    if q not in base:
                        continue
                    want = {b.split(".")[-1] for b in base if b.startswith(q + ".") and "." not in b[len(q) + 1:]}
                    have = [n for n in ast.walk(st) if isinstance(n, FUNC) and n is not st and any(n is x for blk in _blocks(st) for x in blk)]
                    have_names = {n.name for n in have}
                    missing = want - have_names
                    extra = [n for n in have if n.name not in want]
                    if len(missing) == 1 and len(extra) == 1:
                        old, new_name = extra[0].name, next(iter(missing))
                        if not any(isinstance(x, ast.Name) and x.id == new_name for x in ast.walk(st)):
                            extra[0].name = new_name
                            for x in ast.walk(st):
                                if isinstance(x, ast.Name) and x.id == old:
                                    x.id = new_name
                    visit(st.body, q + ".")
        visit(tree.body, "")

    def _annotate(self) -> None:
        tree = self.tree
        tree._p = None
        tree._q = ""
        tree._rel = self.rel
        stack = [(tree, "")]
        while stack:
            node, q = stack.pop()
            lam = 0
            for child in ast.iter_child_nodes(node):
                child._p = node
                child._rel = self.rel
                cq = q
                if isinstance(child, (ast.FunctionDef, ast.AsyncFunctionDef, ast.ClassDef)):
                    cq = f"{q}.{child.name}" if q else child.name
                    # later definitions with the same name (overloads, property setters) get #n
                    if cq in self.defs:
                        k = 2
                        while f"{cq}#{k}" in self.defs:
                            k += 1
                        cq = f"{cq}#{k}"
                    self.defs[cq] = child
                child._q = cq
                stack.append((child, cq))


class Model:
    def __init__(self, repo: str | None = None, overlay: dict[str, str] | None = None, raw: bool = False):
        self.repo = repo or REPO
        self.root = os.path.join(self.repo, PKG)
        if not os.path.isdir(self.root):
            raise AnalysisError(f"package directory {self.root} not found")
        self.files: dict[str, FileInfo] = {}
        overlay = overlay or {}
        for dirpath, dirnames, filenames in os.walk(self.root):
            dirnames[:] = sorted(d for d in dirnames if d != "__pycache__")
            for fn in sorted(filenames):
                if not fn.endswith(".py"):
                    continue
                full = os.path.join(dirpath, fn)
                rel = os.path.relpath(full, self.root)
                text = overlay[rel] if rel in overlay else open(full, encoding="utf-8").read()
                self.files[rel] = FileInfo(rel, text)
        for rel in overlay:
            if rel not in self.files:
                self.files[rel] = FileInfo(rel, overlay[rel])
        if not raw:
            for f in self.files.values():
                f.normalise(self)

    # -- lookup -----------------------------------------------------------------
    def file(self, rel: str) -> FileInfo:
        if rel not in self.files:
            raise AnalysisError(f"anchor vanished: module {PKG}/{rel}")
        return self.files[rel]

    def tree(self, rel: str) -> ast.Module:
        return self.file(rel).tree

    def find(self, rel: str, qual: str):
        return self.file(rel).defs.get(qual)

    def get(self, rel: str, qual: str):
        n = self.find(rel, qual)
        if n is None:
            raise AnalysisError(f"anchor vanished: {PKG}/{rel}::{qual}")
        return n

    def variants(self, rel: str, qual: str) -> list:
        """All definitions named qual (qual, qual#2, ...) in definition order."""
        f = self.file(rel)
        out = [f.defs[qual]] if qual in f.defs else []
        k = 2
        while f"{qual}#{k}" in f.defs:
            out.append(f.defs[f"{qual}#{k}"])
            k += 1
        return out

    def functions(self):
        """All function definitions of the (normalised) model; extracted helpers that were inlined at their call sites
        are not repeated as stand-alone functions."""
        for rel, f in self.files.items():
            for q, n in f.defs.items():
                if isinstance(n, FUNC) and q not in f.inlined_artefacts:
                    yield rel, q, n

    def classes(self):
        for rel, f in self.files.items():
            for q, n in f.defs.items():
                if isinstance(n, ast.ClassDef):
                    yield rel, q, n

    def stores(self, rel: str | None = None):
        """(rel, qualified name of the enclosing def or '', target, statement) for every store in the package (or one module),
        not repeating extracted helpers that were inlined at their call sites."""
        from .astutil import stores_in
        for r, f in self.files.items():
            if rel is not None and r != rel:
                continue
            skip = set()
            for q in f.inlined_artefacts:
                d = f.defs[q]
                for n in ast.walk(d):
                    skip.add(id(n))
            for t, st in stores_in(f.tree, local=False):
                if id(st) in skip:
                    continue
                yield r, getattr(st, "_q", "") or "", t, st

    def walk(self, rel: str | None = None):
        """ast.walk over the package (or one module) without the bodies of inlined extracted helpers."""
        for r, f in self.files.items():
            if rel is not None and r != rel:
                continue
            skip = set()
            for q in f.inlined_artefacts:
                for n in ast.walk(f.defs[q]):
                    skip.add(id(n))
            for n in ast.walk(f.tree):
                if id(n) not in skip:
                    yield n

    def all_nodes(self, rel: str | None = None):
        for r, f in self.files.items():
            if rel is None or r == rel:
                yield from ast.walk(f.tree)

    # -- presentation ----------------------------------------------------------
    def loc(self, node) -> str:
        return f"{PKG}/{getattr(node, '_rel', '?')}:{getattr(node, '_srcline', getattr(node, 'lineno', 0))}"

    def construct(self, node) -> str:
        """rel::qualified name of the innermost enclosing def/class of node."""
        q = getattr(node, "_q", "")
        return f"{getattr(node, '_rel', '?')}::{q or '<module>'}"

    def digest(self) -> str:
        h = hashlib.sha256()
        for rel in sorted(self.files):
            h.update(rel.encode())
            h.update(self.files[rel].text.encode())
        return h.hexdigest()[:16]

    def segment(self, node) -> str:
        return ast.get_source_segment(self.files[node._rel].text, node) or ""

    # -- class hierarchy (syntactic) ----------------------------------------------
    def class_index(self) -> dict[str, tuple[str, ast.ClassDef]]:
        idx: dict[str, tuple[str, ast.ClassDef]] = {}
        for rel, q, n in self.classes():
            if "." not in q:
                idx.setdefault(n.name, (rel, n))
        return idx

    def subclasses(self, name: str) -> list[tuple[str, ast.ClassDef]]:
        """Transitive subclasses (by base-class *name*, package-wide) of class `name`, excluding itself."""
        idx = self.class_index()
        out = []
        changed = True
        names = {name}
        while changed:
            changed = False
            for cname, (rel, node) in idx.items():
                if cname in names:
                    continue
                for b in node.bases:
                    bn = b.attr if isinstance(b, ast.Attribute) else getattr(b, "id", None)
                    if bn in names:
                        names.add(cname)
                        out.append((rel, node))
                        changed = True
                        break
        return out

    def mro_names(self, name: str) -> list[str]:
        """Linearised (depth-first, left-to-right, de-duplicated) chain of base-class names inside the package."""
        idx = self.class_index()
        out: list[str] = []

        def rec(n):
            if n in out:
                return
            out.append(n)
            if n in idx:
                for b in idx[n][1].bases:
                    bn = b.attr if isinstance(b, ast.Attribute) else getattr(b, "id", None)
                    if bn:
                        rec(bn)

        rec(name)
        return out

    def lookup_method(self, cls: str, meth: str):
        idx = self.class_index()
        for cn in self.mro_names(cls):
            if cn in idx:
                rel, node = idx[cn]
                for st in node.body:
                    if isinstance(st, FUNC) and st.name == meth:
                        return rel, st
        return None
