#!/usr/bin/env python3
"""Regenerate the generated tables of DESIGN.md (between <!-- X:BEGIN --> / <!-- X:END --> markers) from seeded/ and twins/."""
import glob, json, os, re
V = "/verif"
s = open(f"{V}/DESIGN.md").read()
for name in ("SEEDTABLE", "ROUND2", "TWINS"):
    if f"<!-- {name}:BEGIN -->" not in s:
        s = s.replace(f"\n{name}\n", f"\n<!-- {name}:BEGIN -->\n<!-- {name}:END -->\n")

def put(name, text):
    global s
    s = re.sub(rf"<!-- {name}:BEGIN -->.*?<!-- {name}:END -->", lambda m: f"<!-- {name}:BEGIN -->\n{text}\n<!-- {name}:END -->", s, flags=re.S)

res = json.load(open(f"{V}/seeded/RESULTS.json")) if os.path.exists(f"{V}/seeded/RESULTS.json") else {}
prov = json.load(open(f"{V}/seeded/PROVENANCE.json"))

def row(d):
    sid = os.path.basename(d)
    try:
        mj = json.load(open(f"{d}/meta.json"))
    except Exception:
        mj = {}
    summ = " ".join(str(mj.get("summary", "")).split())[:150].replace("|", "/")
    need = " ".join(str(mj.get("needs_to_manifest", "")).split())[:110].replace("|", "/")
    r = res.get(sid, {})
    rep = (r.get("report") or [""])[0]
    rule = rep.split(" ")[0] if rep else ""
    pv = prov.get(sid, "")
    tag = "" if not pv else (" (design)" if pv.startswith("design") else " (strengthened)")
    return f"| {sid} | {summ} ({need}) | {r.get('status', '?')}: {rule}{tag} |"

r1 = [d for d in sorted(glob.glob(f"{V}/seeded/C??-[123]"))]
put("SEEDTABLE", "\n".join(row(d) for d in r1))
r2 = [d for d in sorted(glob.glob(f"{V}/seeded/C??-r2-*"))]
if r2:
    st = {}
    for d in r2:
        st.setdefault(res.get(os.path.basename(d), {}).get("status", "?"), []).append(os.path.basename(d))
    head = "Round-2 seeds, evaluated against the checks as they stood when the seeds arrived (`first_status` in meta.json), and now:\n\n| seed | what it changes (needs to manifest) | now |\n|---|---|---|\n"
    put("ROUND2", head + "\n".join(row(d) for d in r2))
resall = json.load(open(f"{V}/seeded/RESULTS_ALL.json")) if os.path.exists(f"{V}/seeded/RESULTS_ALL.json") else {}

def row_all(d):
    sid = os.path.basename(d)
    try:
        mj = json.load(open(f"{d}/meta.json"))
    except Exception:
        mj = {}
    summ = " ".join(str(mj.get("summary", "")).split())[:150].replace("|", "/")
    r = resall.get(sid, {})
    rep = (r.get("report") or [""])[0]
    rule = rep.split(" ")[0] if rep else ""
    blind = mj.get("first_status", "?")
    return f"| {sid} | {summ} | {blind} | {r.get('status', '?')}{': ' + rule if rule else ''} |"

for rnd, name in (("r3", "ROUND3"), ("r4", "ROUND4"), ("r5", "ROUND5"), ("r6", "ROUND6"), ("r7", "ROUND7")):
    rr = [d for d in sorted(glob.glob(f"{V}/seeded/C??-{rnd}-*"))]
    if rr and f"<!-- {name}:BEGIN -->" in s:
        head = "| seed | what it changes | blind verdict (checks as they stood on arrival) | now (all 20 checks) |\n|---|---|---|---|\n"
        put(name, head + "\n".join(row_all(d) for d in rr))
tw = json.load(open(f"{V}/twins/RESULTS.json")) if os.path.exists(f"{V}/twins/RESULTS.json") else {}
if tw:
    from collections import Counter
    c = Counter(v["status"] for v in tw.values())
    lines = [f"Twins evaluated: {len(tw)}; silent on all 20 checks: {c.get('silent', 0)}; false alarms (exit 1 on some property): {c.get('FALSE-ALARM', 0)}; undecided (exit 2): {c.get('undecided', 0)}.", ""]
    put("TWINS_AUTO", "\n".join(lines)) if "<!-- TWINS_AUTO:BEGIN -->" in s else None
open(f"{V}/DESIGN.md", "w").write(s)
print("tables regenerated:", len(r1), "round-1 seeds,", len(r2), "round-2 seeds,", len(tw), "twins")
