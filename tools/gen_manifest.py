#!/usr/bin/env python3
"""Regenerate /verif/MANIFEST.json from the per-property table below + which rules modules exist."""
import json, os, subprocess, sys
V = os.path.dirname(os.path.dirname(os.path.abspath(__file__)))
sys.path.insert(0, V)
from tools.manifest_table import TABLE, NOT_BUILT_REASON  # noqa: E402

props = [json.loads(l) for l in open(f"{V}/properties.jsonl")]
fixes = subprocess.run(["git", "-C", "/repo", "log", "--format=%h %s", "e0f9650..HEAD"], capture_output=True, text=True).stdout.strip().splitlines()
checks, na = [], []
for p in props:
    pid = p["id"]
    t = TABLE.get(pid)
    if t and os.path.exists(f"{V}/rules/{pid.lower()}.py") and not t.get("not_applicable"):
        checks.append({
            "property_id": pid,
            "quick_cmd": f"./check {pid} --tier quick",
            "thorough_cmd": f"./check {pid} --tier thorough",
            "evidence_file": f"/verif/evidence/{pid}.json",
            "replay_cmd_template": f"./check {pid} --replay {{path}}",
            "engine": "tiv",
            "level_claimed": {"category": "other", "text": t["text"], "design_ref": f"DESIGN.md section 4, {pid}"},
            "level_note": t["note"],
            "technique": t["technique"],
        })
    else:
        na.append({"property_id": pid, "reason": (t or {}).get("not_applicable") or NOT_BUILT_REASON})
man = {
    "version": 1,
    "setup_cmd": "/venv/bin/python -m compileall -q tiv rules >/dev/null 2>&1; true",
    "hooks": {
        "guard": "TERM_IMAGE_VERIF",
        "enable": "no hooks or instrumentation are added to /repo: every check only parses /repo/src/term_image (guard unused)",
        "baseline_off_cmd": "cd /repo && /venv/bin/python -m pytest -ra -q -p no:cacheprovider --timeout=900 --continue-on-collection-errors",
        "source_commits": [f.split()[0] for f in fixes],
        "add_only": True,
    },
    "engines": [{
        "name": "tiv", "path": "/verif/tiv",
        "serves_properties": [c["property_id"] for c in checks],
        "kind_free_text": "repository-specific static analysis on Python's ast: source model + resolver, statement CFG with exceptional edges, "
                          "path/dominance queries, effect atoms, constant folder for control-sequence templates, regex-literal -> DFA algebra, affine cursor-row dataflow, "
                          "a normalisation layer (helper inlining with continuation pushing, canonical statement forms, record scalarisation), flow-sensitive value tracing with "
                          "phi/try merges and negation normal forms of traced guards, symbolic output shapes, induction-variable polynomials, finite abstract-domain decisions, "
                          "finite-state abstract interpretation of the chunking generator; "
                          "thorough tier adds an in-memory mutant catalogue (checker self-test)",
    }],
    "checks": checks,
    "not_applicable": na,
    "notes": "source_commits lists the unguarded `fix:` commits made in /repo (genuine defects found by the rules; see known_findings.json and DESIGN.md section 5); "
             "there are no hook commits. Exit codes: 0 held / 1 VIOLATION / 2 ANALYSIS-ERROR (checker could not decide; fail-closed).",
}
json.dump(man, open(f"{V}/MANIFEST.json", "w"), indent=1)
print(f"{len(checks)} checks, {len(na)} not_applicable")
