NOT_BUILT_REASON = "check not built yet in this session (design in DESIGN.md section 4); not claimed until its rules exist"
_NOTE = ("Decides only the structural clauses listed in DESIGN.md section 4 for this property (necessary conditions visible in the shape "
         "of the code); the runtime-valued remainder is not decided. Trusted: CPython semantics, ast parser, third-party libraries, the terminal.")
TABLE = {
    "C13": {
        "text": "For every termios.tcsetattr in the package: modification only inside a try whose finally restores a pristine saved original "
                "(bound once from its own tcgetattr, never aliased/mutated), consistent guards, nothing fallible before the restore. Holds for every "
                "input, exit kind and interrupt position because it is a statement about all paths of the code, not about runs.",
        "note": _NOTE + " Kernel behaviour of tcsetattr is out of scope.",
        "technique": "pairing / lexical-protection rule over try-finally + alias and mutation discipline of the saved attribute list (ast, CFG may-raise model)",
    },
}
