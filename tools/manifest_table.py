NOT_BUILT_REASON = "check not built yet in this session (design in DESIGN.md section 4); not claimed until its rules exist"
_NOTE = ("Decides only the structural clauses listed in DESIGN.md section 4 for this property (necessary conditions visible in the shape "
         "of the code); the runtime-valued remainder is not decided. Trusted: CPython semantics, ast parser, third-party libraries, the terminal.")
TABLE = {
    "C13": {
        "text": "For every termios.tcsetattr in the package: modification only inside a try whose finally restores a pristine saved original "
                "(bound once from its own tcgetattr, never aliased/mutated), consistent guards, nothing fallible before the restore. Holds for every "
                "input, exit kind and interrupt position because it is a statement about all paths of the code, not about runs.",
        "note": _NOTE + " Kernel behaviour of tcsetattr is out of scope.",
        "technique": "pairing / lexical-protection rule over try-finally + alias and mutation discipline of the saved attribute list (ast, CFG may-raise model)",
    },
    "C14": {
        "text": "Lock discipline the mutual-exclusion argument rests on: the lock_tty wrapper takes the module-global _tty_lock twice around the call, "
                "every terminal I/O primitive on _tty_fd sits in a lock_tty-decorated function, the lock is rebound only by the two Process wrappers "
                "(under the old lock, to a re-entrant process-shared lock), the child always receives it, and the urwid screen's I/O overrides are decorated. "
                "A statement over all call sites, not over schedules. Terminal locks are taken by `with` only (no explicit acquire/release, no fork hooks); no_redecorate marks the decorator's result.",
        "note": _NOTE + " Mutual exclusion under every interleaving and the Process.start race are NOT decided (schedule exploration is a different technique family).",
        "technique": "who-may-call / who-may-write rules over resolved decorators and globals, definite-assignment on the CFG of the Process wrappers",
    },
    "C15": {
        "text": "Invalidation obligations: every writer of a setting the cell-size cache depends on resets the cache under its lock on all normal paths; every "
                "query-derived memo (decorator-based or hand-rolled, found through the call graph to query_terminal) is invalidated by enable_queries(); memo "
                "decorators do lookup+call+store under one RLock; get_cell_size stores under the key it compared on every computing path; FIXED snapshots, DYNAMIC recomputes. Each value stored by terminal_size_cached carries its own terminal-size stamp; the key of utils.cached identifies the call. The stamp of terminal_size_cached is the library's get_terminal_size().",
        "note": _NOTE + " Values after a concrete resize history are runtime data and are not decided. Three recorded known findings (K5).",
        "technique": "must-pass-through on the CFG (toggle -> cache reset), call-graph reachability to query_terminal for memo discovery, lock-scope containment",
    },
    "C19": {
        "text": "The acceptance set of a format specifier is decided exactly, for strings of every length: the regex literals and the boolean "
                "combination are read from the syntax tree, compiled to DFAs and compared (product automaton) with the documented grammar; plus group/unpack "
                "agreement, default-table agreement with draw(), per-style table agreement (patterns, _style_args, renderer parameters), anchoring of the style "
                "field parser and absence of side effects in the checking functions. Decimal fields are unbounded in length (regex AST); a memoised parser's result is not mutated one hop away; the checkers are called through the image's own class.",
        "note": _NOTE + " The style sub-grammar acceptance is decided as table/anchoring agreement, not as a language. Non-ASCII category members are represented by sample code points.",
        "technique": "regular-language algebra on constant-folded regex sources (re._parser -> NFA -> DFA product, shortest witness), group-to-use tracing with case specialisation of the traced expressions, table agreement, effect query",
    },
    "C20": {
        "text": "Resolution instance -> class -> default is Python attribute lookup provided override cells are written correctly; the rules decide exactly that: "
                "unset paths delete the receiver's own cell and never store (except the default-defining class), setters store only the receiver's cell after "
                "validation on every accepted path, getters read through the instance/class, class-only settings have getter-only instance properties, the "
                "native-animation limit has a single metaclass cell, and the two forms of set_render_method validate identically. While a descriptor tests the truth value of the instance, no image class defines __bool__/__len__. Settings are stored only by their own accessors and set_render_method.",
        "note": _NOTE + " Python's MRO attribute lookup is trusted; results for arbitrary subclass trees follow from it given R1-R6.",
        "technique": "who-may-write / delete-vs-store discipline on override cells, must-pass-through and validate-before-store on the CFG, sibling agreement",
    },
    "C07": {
        "text": "Crash points are covered by path rules, not enumerated: every HIDE_CURSOR write is inside a try whose finally shows the cursor under an implied "
                "condition; every render-output write in a draw path is inside a try whose handlers certainly catch the required interruption classes and call the "
                "style's interrupted-draw hook on all handler paths; graphics styles' hooks emit ST*2 (+ end-of-chunk) flushed; frame position, dynamic size, "
                "iterator and render data are restored/closed in finally blocks covering every frame render; animations swallow Ctrl-C, still draws re-raise. The flush that delivers a frame lies inside the protected try of its write. KITTY_END_CHUNKED is sent unconditionally by the hook.",
        "note": _NOTE + " Clean-up code is treated as atomic (the property stops at 'before its own clean-up starts'). Partial-write byte cuts and terminals' recovery after ST are device behaviour, not decided.",
        "technique": "pairing / lexical protection by try-finally, handler-class coverage (must-catch sets) of every write, wait and frame step, must-call on the handler CFG, class-hierarchy exhaustiveness, termios save/modify/restore discipline (shared with C13)",
    },
    "C10": {
        "text": "Must-finalize with ownership on a CFG with exceptional edges (single-fault leak-point analysis): for every statement at which a fault can occur "
                "after render data was created, the data is finalized or was handed over before the function is left; once-flag shape of finalize()/close(); "
                "iterator handlers close before raising; caller-owned data follows the finalize parameter; no generator step after finalization. The closed flag is dominated by the finalize decision on every path, exceptional ones included.",
        "note": _NOTE + " 'Exactly once' as a count over histories is reduced to once-flag + must-finalize; garbage-collection timing is not modelled. One recorded known finding (K4c).",
        "technique": "typestate / must-release dataflow on a statement CFG with exceptional edges, flag-specialised on the ownership parameter; dominance checks; who-may-call table for finalize() with ownership guard",
    },
    "C16": {
        "text": "The laws behind the property as effects and agreements over all methods: no non-constructor method of the immutable classes stores to an existing "
                "object or calls a mutator on a non-fresh container; shared default tables are only ever bound to MappingProxyType over freshly built mappings; the "
                "interning conditions of __new__ and __init__ agree and both early returns dominate the single (re)initialisation; precedence is the order of three "
                "writes with the compatibility test before each write; hash cells are a subset of eq cells; metaclass rejections precede class creation. __hash__ does not test identity; the render class of a set is never looked up in a namespace table; update/convert/to_render_args pass all inputs on unfiltered. convert returns a set only where issubclass between the two render classes holds.",
        "note": _NOTE + " Outcomes for arbitrary class trees (metaclass execution) are not decided.",
        "technique": "effect/freshness analysis per method, who-may-bind tables, dominance by statement order, sibling-condition agreement, hash/eq cell-set inclusion",
    },
    "C05": {
        "text": "Taint rule: no terminal-relative padding reaches a computing method (every sink receiver is dominated by a resolving step, is the second result of "
                "_init_render_, or is a field with only sanitised stores); AlignedPadding's computing methods guard on `relative`; the three definitions of 'relative "
                "dimension' agree (max(t+d,1)); resolve() preserves every other field; the alignment table and the margin formulas are checked as polynomials "
                "(near = pad*n//d, far = pad-near, padded = l+w+r); pad-iff-different with unpadded operands; padding after the cache.",
        "note": _NOTE + " That the composed string occupies exactly the box on a terminal (cursor-moving inner renders, fills) is a terminal-model question, not decided.",
        "technique": "may-taint/dominance dataflow on the CFG, field-store discipline, margin formulas as polynomials over traced expressions, symbolic output shape of Padding.pad / _format_render (margin counts per case of fill x alignment), table agreement",
    },
    "C08": {
        "text": "Per-operation invariants every history relies on: closed-guard first; validate-before-mutate (no raise reachable after a state store); settings read at "
                "the point of use after the dummy yield (no local/parameter snapshots; first frame number read from frame_offset after the yield); the iterator uses only "
                "four attributes of the renderable and writes none; sibling seek rules agree and every accepted seek is recorded on all non-raising paths; the padded size "
                "is recomputed from the stored padding and current size; cached frames are stored unpadded. A validating RenderArgs(...) construction counts as validation (no store to self.* before it). The public loop attribute is write-only inside the loops of _iterate.",
        "note": _NOTE + " The frame sequence / loop countdown for an arbitrary operation history is a state-machine question over runtime counters - not decided.",
        "technique": "dominance and reachability on the CFG (validate-before-mutate, must-record), reaching-definition / snapshot scan, who-may-use and who-may-write tables for every state cell, sibling agreement, finite-domain decision of the seek rejection predicate",
    },
    "C09": {
        "text": "Cache-key coverage as table agreement: the set of cells that control methods can change (discovered from the setters) intersected with the inputs of "
                "_render_ must appear in the compared key, and stored details equal compared details; the cache index is the rendered frame number; padded frames are never "
                "stored; a hit renders nothing; cache switch (INDEFINITE, bool, frame_count<=cache, loops==1); ImageIterator stores a fresh size hash after each render. Every render made while caching is on is stored (the store has no condition of its own beyond the caching switch).",
        "note": _NOTE + " Relational equivalence of cached and uncached runs over all histories is not decided.",
        "technique": "writer-table vs reader-table agreement (mutable cells vs cache key), miss condition as the disjuncts of its traced truth value (negation normal form through conditional expressions), per-entry validity on traced expressions, inventory of per-frame stores, CFG reachability (no store after padding), finite-domain decision of the cache switch, def-use of the size hash",
    },
    "C01": {
        "text": "Every control-sequence template of _ctlseqs.py is constant-folded from the syntax tree and parsed against an ECMA-48 template grammar (complete "
                "CSI/OSC/APC/DCS, placeholders only in parameter/payload positions); no literal escapes elsewhere; OSC 1337 openers closed by ST; every operand of a raw "
                "cursor/erase template proven >= 1 (size clamp or dominating guard); per renderer the newline-bearing fragments occur rendered_height-1 times in recognised "
                "idioms, lines end with the style's cursor policy (kitty C=1 + CUF w; iterm2 doNotMoveCursor iff konsole advance; block SGR reset), chunked transmissions terminate. Renderers keep no state on the instance or class between renders.",
        "note": _NOTE + " That the payload paints c x r cells, wrapping/scrolling and the konsole/iterm2 cursor-movement model are terminal behaviour - not decided.",
        "technique": "constant folding + grammar check of control-sequence templates, sign analysis of template operands, induction-variable polynomials for the block line loop, symbolic output-shape analysis of the renderers (regular-expression-like term of the emitted text; newline count as a polynomial, Glushkov follow sets, case split on the free conditions), who-may-write on the escape alphabet",
    },
    "C03": {
        "text": "Chunk protocol decided on the generator's look-ahead structure (or on recognised alternatives via polynomial comparison of position vs length); "
                "mode/format and control-key provenance tables (s, v, c, r, z, f; strip length = width*cell_height*bpp); buffer typestate where size= is advertised "
                "(seek/tell/seek/read; seek/save/truncate/tell per reused strip buffer); the read-from-file gate has exactly the documented conjuncts; the o=z flag is "
                "set under state-only conditions because the ControlData is shared across strips. Renderers keep no state; the image object handed to a renderer is not modified in place where it can be the source.",
        "note": _NOTE + " Decoded payload == image pixels and strip stitching are runtime data (zlib/base64/PNG) - not decided.",
        "technique": "finite-state abstract interpretation of the chunking generator (read-offset values, nondeterministic end of payload, m-flag monitor; idiom rules as fallback), control-key provenance on traced expressions (backward value slices), image-command arguments read off the symbolic output shape, call-order typestate on buffers, guard-set comparison, must-order on the CFG",
    },
    "C12": {
        "text": "Request/stop-predicate/drain/parser agreement at every query_terminal call site (DA1 sentinel last; complete vs prefix predicate by reply alphabet; "
                "prefix reads drained inside the same lock block; flush only before the request); request Ps <-> response Ps tables; response regexes' languages decided "
                "exactly by DFA equality on constant-folded patterns; swap applies to every source of the text-area size; per-component colour scaling; fallbacks "
                "(disabled -> None first, guarded responses, bounded reads); style preference table and support rules. The environment is only the fallback for a missing XTVERSION reply; the key of utils.cached identifies the call (args and kwargs.items()). The elapsed time is recomputed on every way round the timed read loop.",
        "note": _NOTE + " Reply timing, select behaviour and byte-stream splits are schedules over a device - not decided.",
        "technique": "sibling call-site agreement, constant folding + regular-language equality of response patterns, traced condition sets of the support decisions decided on finite abstract domains, CFG dominance (swap covers all sources), def-use of the colour scale",
    },
    "C02": {
        "text": "The structural core of the run-length state machine: the run-boundary predicate is canonicalised (chained comparisons -> relation sets) and must be "
                "invariant under the upper<->lower renaming and contain the 2 colour tests + 4 alpha-transition tests; every loop-carried variable read by the flush "
                "closure is updated after a flush; the emission branches are mirror images; the kitty workaround tests the cluster it nudges; alpha classification "
                "(round_alpha, strict <, compositing under state-only conditions). The source image is read-only (no in-place edit of img.info / palette where img can be the caller's object). Renderers keep no state; the image is not modified in place where it can be the source; resize(size, BOX) in one step.",
        "note": _NOTE + " Every actual colour / alpha value (PIL resampling, compositing) is runtime data - not decided.",
        "technique": "decision of the run-boundary predicate against its specification over a finite abstract domain (648 valuations), emission truth table of update_buffer from its symbolic output shape, loop-carried state completeness, must-order on the CFG (convert before resize, seek iff animated), guard-set analysis, memo safety",
    },
    "C04": {
        "text": "Necessary structure of the sizing code: every return of _valid_size clamps both dimensions with `or 1`; unit conversions are inverse pairs sharing one "
                "unit source per axis with _get_render_size; dynamic sizes are re-evaluated on every access, never memoised, restored after rendering, with a closed set "
                "of writers; every Size member is handled; AUTO tests exactly ORIGINAL's pixel size; the two FIT branches mirror each other under width<->height. One rounding per derived dimension (a helper whose result is scaled and rounded returns it unrounded); every accepted size is stored on every non-raising path of the size setter / set_size.",
        "note": _NOTE + " The fit/fill/aspect inequalities (float rounding over five quantities) need a relational numeric domain or a solver - NOT decided by this family.",
        "technique": "return-shape rule, inverse-pair agreement on traced unit expressions, sibling agreement by unification (width<->height renaming found, not assumed), who-may-write / who-may-cache query, enum exhaustiveness, memo safety",
    },
    "C06": {
        "text": "The cursor bookkeeping is arithmetic over symbols, decided as an affine computation: each write in the animation drivers is mapped to a row displacement "
                "polynomial (frame of h lines: h-1; newline: 1; cursor_up(e): -e; ...); obligations: loop iteration row-neutral, after the first frame at the top of the "
                "render region, on normal completion on the last line of the padded region (then exactly one newline). Plus operand signs, validate-before-write with the "
                "documented width/height/scroll predicate, complementary version predicates for per-frame clearing. The size predicate of _init_render_ and kitty's clear/blend predicates are decided by evaluation on finite domains (tuples ordered lexicographically, as Python does). The writes of the frame loop are unconditional.",
        "note": _NOTE + " What a terminal does with the bytes (scrolling at the bottom, margins) is not decided. One recorded known finding (K1, old API ends `lines` rows too low).",
        "technique": "affine dataflow of the cursor row over a transfer table applied to traced write expressions (polynomial normal forms over render size and padding margins), sign analysis, guard-conjunct analysis, order/dominance checks (nothing written before validation)",
    },
    "C11": {
        "text": "Ownership discipline of PIL images with few named primitives: who-may-close (only fresh objects, or through _close_image which spares the source), "
                "must-release on every normal path of every renderer (CFG), release-before-rebind with finally for the declared-fallible steps, iterator bookkeeping "
                "(seek position set before each render and reset at both ends of pass, image recorded/released, generators owning images never overwritten), builtin "
                "open() always in a with, temp copy created after successful construction and removed on failed write. No use after release (typestate over the CFG); no seek request is lost between two yields of ImageIterator._animate. Size-dependent values are read per frame in ImageIterator._animate.",
        "note": _NOTE + " Frame equality with direct formatting, tell() under arbitrary seeks and HTTP behaviour are not decided; exceptional paths other than the declared-fallible ones rely on CPython reference counting. Two recorded known findings (K2a/K2b).",
        "technique": "ownership / must-release typestate on the CFG, freshness analysis for close sites, dominance (mkstemp after construction), call-order checks",
    },
    "C17": {
        "text": "Only the structural clauses: rows() and render() take the same decision from the same _valid_size inputs; the row assembly order (reset between image and "
                "right padding), backward colour recovery up to the last 'm', fast path only without horizontal trim; the canvas uses its recorded image size and the same "
                "centre split as _format_render; _ti_calc_trim's results equal the interval-intersection specification on every feasible path (proved per path by linear arithmetic). Every yielded row is a fresh object.",
        "note": _NOTE + " The byte content of the trimmed lines (trimmed canvas == crop of the full canvas, cell for cell) is runtime data and is NOT decided; the arithmetic of the region (_ti_calc_trim) is.",
        "technique": "agreement of rows() and render() as traced expressions per case (FIT/AUTO), padding split via the traced arguments of _ti_calc_trim specialised per alignment, symbolic output shape of _format_render, row-assembly order by content, who-may-read query on the live image; path enumeration of _ti_calc_trim with Fourier-Motzkin infeasibility / entailment per specification case (tiv/linarith.py)",
    },
    "C18": {
        "text": "Synchronized-update bracket (BEGIN immediately before a try whose finally writes END and flushes, all output inside), delete-before-draw through the buffered "
                "stream, view identity includes every geometric component unpacked from the canvas view, views updated on every inspecting path (CFG), clear on "
                "start/stop/clear with a disguise change on every path, single z-index allocator accessed via __class__ with overflow test and successor function, "
                "frozenset kind of _ti_image_cviews, lock-decorated I/O overrides. A delete-all runs at most once per pass; shard tails are aged after the last view of each shard. The widget's blend=False depends only on the image type and the konsole exception.",
        "note": _NOTE + " Which placements a layout history leaves on the terminal depends on shard geometry at run time - not decided.",
        "technique": "pairing (bracket) rule, must-pass-through on the CFG, key-completeness (unpacked components subset of key), who-may-write on allocator state, kind check",
    },
}
