#!/usr/bin/env python3
"""Create one scratch worktree per property under /tmp/wt/<id> and write TASK.md into it
(the only thing a seeding sub-agent is given: the property text, nothing from /verif)."""
import json, os, subprocess, sys
ids = sys.argv[1:]
props = {json.loads(l)["id"]: json.loads(l) for l in open("/verif/properties.jsonl")}
for pid in ids or props:
    p = props[pid]
    wt = f"/tmp/wt/{pid}"
    if not os.path.isdir(wt):
        subprocess.check_call(["git", "-C", "/repo", "worktree", "add", "--detach", wt, "HEAD"], stdout=subprocess.DEVNULL)
    anchors = p["anchors"]
    mech = "\n".join(f"  - {m['name']}  ({m['where']})" for m in anchors.get("mechanism", []))
    state = "\n".join(f"  - {m['name']}: {m['meaning']}  ({m['where']})" for m in anchors.get("state", []))
    task = f"""# Task: seed a realistic, subtle defect that breaks one semantic property

You are working in a scratch git worktree of the Python library **term-image**
(AnonymouX47/term-image) at `{wt}`. Work ONLY inside `{wt}`. Do not read, list or
modify `/verif` or `/repo` (another copy of the library lives there; leave it alone).

## How to run things here

The library is installed in `/venv` as an editable install that points at another
copy, so ALWAYS put this worktree first on the path:

    cd {wt} && PYTHONPATH={wt}/src /venv/bin/python -m pytest -q -p no:cacheprovider --timeout=900

Expected on the unmodified worktree: 1178 passed; 4 failures in tests/test_image/test_url.py
and 1 error in tests/test_padding.py::TestAlignedPadding::TestResolve are pre-existing
(no network / fixture problem) and are ignored. No network is available; nothing can be installed.

## The property

**{p['id']} - {p['title']}**

Statement: {p['statement']}

Quantified over: {p['quantifier']['text']}

Why the existing tests cannot settle it: {p['why_tests_cant']}

Code it is anchored in (line numbers approximate):
  files: {', '.join(anchors['files'])}
{mech}
{state}
  observe at: {', '.join(anchors.get('observe_at', []))}

## What to produce

Produce up to THREE different, independent changes to the library source (`src/term_image/**` only;
never edit tests) each of which

1. BREAKS the property above (a real behavioural violation of the statement, for some input /
   history / fault position / schedule / configuration in the quantifier),
2. still imports/compiles, and still PASSES the existing test suite exactly as before
   (1178 passed, same 5 pre-existing failures) - verify this by running the full suite,
3. is REALISTIC: the kind of slip a maintainer could make in a refactor, optimisation, clean-up or
   feature patch (off-by-one, dropped clean-up on one path, wrong variable, forgotten key, reordered
   statements, one of two cooperating sites changed, condition weakened...). Not sabotage that
   ordinary use exposes at once, and not a change whose only effect is cosmetic.
4. needs something SPECIFIC to manifest: a particular interleaving, a crash/fault/interrupt at a
   particular point, a multi-step sequence of operations, an unusual input or configuration, or two
   cooperating sites that each look fine alone. Prefer changes in different functions / mechanisms
   of the property for the three variants, and vary the style (deleting a statement, changing an
   operand, moving a statement, editing a table/regex/constant, changing a condition, adding a
   shortcut/early return, touching a helper rather than the obvious function).

For each change k = 1, 2, 3 write into `{wt}/out/k/`:

* `patch.diff` - `git diff` of the change against the worktree's HEAD (src only), applicable with
  `git apply` on a clean checkout. One change per patch; the patches are independent alternatives
  (each applies to the clean HEAD on its own).
* `demo.py` - a small self-contained program (it may import from `tests` fixtures/stubs if useful, and
  may use mocks, fake streams, ptys, threads, fault injection...) run as
  `cd {wt} && PYTHONPATH={wt}/src /venv/bin/python out/k/demo.py` that exits 0 on the UNMODIFIED
  library and exits non-zero (assertion failure is fine) WITH the change applied, because it observes
  the property being violated. It must be deterministic and finish within ~60 s.
* `meta.json` - {{"property": "{p['id']}", "summary": "<one line>", "files": [...],
  "functions": ["qualified names touched"], "needs_to_manifest": "<what specific input/sequence/
  fault is needed>", "why_tests_pass": "<why the suite does not notice>",
  "commands_run": ["..."], "suite_result_with_change": "<counts>"}}

Check each one yourself: apply only that patch to a clean tree (`git stash`/`git checkout -- .`
between variants), run the full suite, run the demo with and without it. When finished, leave the
worktree source CLEAN (`git checkout -- src`), keeping only the `out/` directory, and reply with a
short summary of the variants (what each changes and what it needs to manifest). If you cannot
find three good ones, deliver fewer; quality over quantity.
"""
    open(f"{wt}/TASK.md", "w").write(task)
    print(wt)
