#!/usr/bin/env python3
"""Round-2 task files: (a) new seeded defects avoiding the round-1 ones, (b) behaviour-preserving refactors.
usage: mk_seed_tasks2.py seed|refactor [ids...]"""
import glob, json, os, subprocess, sys
kind = sys.argv[1]
ids = [a for a in sys.argv[2:] if not a.startswith("--")]
ROUND = next((a.split("=")[1] for a in sys.argv[2:] if a.startswith("--round=")), "2")
props = {json.loads(l)["id"]: json.loads(l) for l in open("/verif/properties.jsonl")}
root = (f"/tmp/wt{ROUND}" if kind == "seed" else ("/tmp/wtr" if ROUND == "2" else f"/tmp/wtr{ROUND}"))
for pid in ids or props:
    p = props[pid]
    wt = f"{root}/{pid}"
    if not os.path.isdir(wt):
        os.makedirs(root, exist_ok=True)
        subprocess.check_call(["git", "-C", "/repo", "worktree", "add", "--detach", wt, "HEAD"], stdout=subprocess.DEVNULL, stderr=subprocess.DEVNULL)
    anchors = p["anchors"]
    mech = "\n".join(f"  - {m['name']}  ({m['where']})" for m in anchors.get("mechanism", []))
    state = "\n".join(f"  - {m['name']}: {m['meaning']}  ({m['where']})" for m in anchors.get("state", []))
    known = []
    for d in sorted(glob.glob(f"/verif/seeded/{pid}-*")):
        try:
            mj = json.load(open(f"{d}/meta.json"))
            known.append(f"  - {mj.get('summary', '')} [{', '.join(mj.get('functions', [])[:3])}]")
        except Exception:
            pass
    common = f"""You are working in a scratch git worktree of the Python library **term-image** (AnonymouX47/term-image) at `{wt}`.
Work ONLY inside `{wt}`. Do not read, list or modify `/verif` or `/repo`.

## How to run things here

The library is installed in `/venv` as an editable install that points at another copy, so ALWAYS put this worktree first:

    cd {wt} && PYTHONPATH={wt}/src /venv/bin/python -m pytest -q -p no:cacheprovider --timeout=900 --continue-on-collection-errors

Expected on the unmodified worktree: 1178 passed; 4 failures in tests/test_image/test_url.py and 1 error in
tests/test_padding.py::TestAlignedPadding::TestResolve are pre-existing and are ignored. No network; nothing can be installed.
NEVER use `git stash` (the stash is shared between worktrees): use `git diff > file`, `git checkout -- src`, `git apply file`.

## The property

**{p['id']} - {p['title']}**

Statement: {p['statement']}

Quantified over: {p['quantifier']['text']}

Why the existing tests cannot settle it: {p['why_tests_cant']}

Code it is anchored in (line numbers approximate):
  files: {', '.join(anchors['files'])}
{mech}
{state}
  observe at: {', '.join(anchors.get('observe_at', []))}
"""
    if kind == "seed":
        task = f"""# Task: seed NEW realistic, subtle defects that break one semantic property (a later round: many changes are already known)

{common}
## What to produce

Produce up to THREE different, independent changes to the library source (`src/term_image/**` only; never edit tests) each of which
BREAKS the property above for some input / history / fault position / schedule / configuration in the quantifier, still compiles, and
still PASSES the existing test suite exactly as before (1178 passed, same 5 pre-existing failures - run the full suite to check).
Each must be REALISTIC (a slip a maintainer could make in a refactor, optimisation, clean-up or feature patch) and must need something
SPECIFIC to manifest (particular interleaving, fault at a particular point, multi-step sequence, unusual input/configuration, or two
cooperating sites that each look fine alone). Not sabotage that ordinary use exposes at once.

The following changes are ALREADY KNOWN - do NOT repeat them or trivial variations of them; look for different mechanisms, different
functions, different clauses of the property statement, and different styles of edit (a helper extracted wrongly, a changed default, a new
fast path / cache, a condition reordered, a loop bound, an exception type, a table entry, a decorator, state shared that should not be...):
{chr(10).join(known) if known else '  (none)'}

For each change k = 1, 2, 3 write into `{wt}/out/k/`:
* `patch.diff` - `git diff` against HEAD (src only), applicable with `git apply` on a clean checkout; one change per patch, each
  independent of the others.
* `demo.py` - small self-contained program run as `cd {wt} && PYTHONPATH={wt}/src /venv/bin/python out/k/demo.py` that exits 0 on the
  UNMODIFIED library and non-zero WITH the change, because it observes the property being violated. Deterministic, < 60 s, robust under
  machine load (no tight timing assumptions).
* `meta.json` - {{"property": "{p['id']}", "summary": "<one line>", "files": [...], "functions": ["qualified names touched"],
  "needs_to_manifest": "...", "why_tests_pass": "...", "commands_run": ["..."], "suite_result_with_change": "<counts>"}}

Verify each yourself (apply only that patch to a clean tree, full suite, demo with and without). Finish with the source CLEAN
(`git checkout -- src`), keeping only `out/`, and reply with a short summary of the variants. Fewer good ones beat three weak ones.
"""
    else:
        task = f"""# Task: BEHAVIOUR-PRESERVING refactors of the code behind one semantic property

{common}
## What to produce

Produce FIVE different, independent, **behaviour-preserving** changes to the library source (`src/term_image/**` only; never edit tests)
that touch the code this property is anchored in. Each must keep the property TRUE and keep every observable behaviour of the library
unchanged - they are the kind of harmless edits maintainers make all the time. Vary them: rename local variables / private helpers,
reorder independent statements, extract a few statements into a private helper function or inline a helper, replace an idiom by an
equivalent one (`a and f()` -> `if a: f()`, conditional expression -> if/else, f-string -> concatenation, `x or 1` -> `max(x, 1)` only where
provably equivalent, tuple unpacking -> indexing, `not a <= b` -> `a > b`, chained comparison split, ...), algebraically regroup an
arithmetic expression, move a computation to a local, change comments/docstrings/formatting, add type annotations, reorder `or`/`and`
operands that are side-effect free, split or merge `with`/`try` blocks WITHOUT changing what is protected, etc.
Prefer the LARGER kinds of harmless restructuring this time: move a block of logic into a new private method / module function / nested
closure (or inline an existing private helper), replace a flag variable by early returns (or the reverse), turn a loop into a comprehension
or generator (or the reverse), hoist loop-invariant computations, merge duplicated branches, introduce a small local NamedTuple/dataclass
for values that travel together, rename a private local helper consistently, replace `try/except/else` by equivalent straight-line code
where nothing can raise, change the order of independent validations that raise the same error class for disjoint inputs, etc.
Make them non-trivial (each touching at least one function named in the anchors above) but strictly semantics-preserving.

For each change k = 1..5 write into `{wt}/out/k/`:
* `patch.diff` - `git diff` against HEAD (src only), applicable with `git apply` on a clean checkout; each independent of the others.
* `meta.json` - {{"property": "{p['id']}", "summary": "<one line: what was refactored and why it is behaviour-preserving>",
  "files": [...], "functions": ["qualified names touched"], "suite_result_with_change": "<counts>"}}

Verify each yourself: apply only that patch to a clean tree, run the full suite (must still be 1178 passed + the same 5 pre-existing
failures), and convince yourself by reading that behaviour is unchanged on ALL inputs (not only tested ones). Finish with the source
CLEAN (`git checkout -- src`), keeping only `out/`, and reply with a short summary.
"""
    open(f"{wt}/TASK.md", "w").write(task)
    print(wt)
