#!/usr/bin/env python3
"""Print a python file with docstrings / blank lines elided (line numbers kept). Dev aid only."""
import ast, sys
path = sys.argv[1]
lo = int(sys.argv[2]) if len(sys.argv) > 2 else 1
hi = int(sys.argv[3]) if len(sys.argv) > 3 else 10**9
src = open(path).read()
tree = ast.parse(src)
skip = set()
for n in ast.walk(tree):
    if isinstance(n, ast.Expr) and isinstance(n.value, ast.Constant) and isinstance(n.value.value, str):
        if n.end_lineno - n.lineno >= 1:
            for l in range(n.lineno + 1, n.end_lineno + 1):
                skip.add(l)
    # doc= keyword strings
    if isinstance(n, ast.keyword) and n.arg == "doc" and isinstance(n.value, ast.Constant):
        for l in range(n.value.lineno + 1, n.value.end_lineno + 1):
            skip.add(l)
for i, line in enumerate(src.splitlines(), 1):
    if i < lo or i > hi or i in skip or not line.strip():
        continue
    print(f"{i:5d} {line}")
