#!/bin/sh
# usage: tools/regress.sh Cxx  -> clean tree, mutants, seeds of Cxx, and every twin's verdict for Cxx
cd /verif
P=$1
./check $P --tier thorough --no-evidence | grep -E "^C|^  C|ANALYSIS|SELFTEST" | cut -c1-240
python3 tools/run_seeds.py $P 2>&1 | grep -v " caught " | cut -c1-200
python3 tools/run_twins.py > /tmp/twins_run.log 2>&1
python3 - "$P" <<'PY'
import json, sys
P = sys.argv[1]
r = json.load(open("/verif/twins/RESULTS.json"))
fa = [(k, x["report"][:330]) for k, v in sorted(r.items()) for x in v.get("alarms", []) if x["property"] == P]
un = [(k, x["report"][:200]) for k, v in sorted(r.items()) for x in v.get("undecided", []) if x["property"] == P]
print(f"twins: {len(fa)} false alarms, {len(un)} undecided for {P}")
for k, t in fa: print("  FA", k, t)
for k, t in un: print("  ??", k, t)
from collections import Counter
print("overall:", dict(Counter(v["status"] for v in r.values())))
PY
