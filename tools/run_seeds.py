#!/usr/bin/env python3
"""Run the registered checks against every kept seeded change, each in its own scratch worktree of /repo HEAD (checks pointed at it with
--repo; /repo itself is not touched), in parallel. Default: the check of the property the seed breaks -> seeded/RESULTS.json.
--all: every check (own / other / undecided) -> seeded/RESULTS_ALL.json.  usage: run_seeds.py [--all] [Cxx | seed-id ...]"""
import json, os, shutil, subprocess, sys, tempfile
from concurrent.futures import ThreadPoolExecutor
V = "/verif"
ALL = "--all" in sys.argv
only = set(a for a in sys.argv[1:] if a != "--all")


def one(d):
    p = f"{V}/seeded/{d}/patch.diff"
    pid = d.split("-")[0]
    wt = tempfile.mkdtemp(prefix=f"sd_{d}_", dir="/tmp"); os.rmdir(wt)
    try:
        subprocess.run(f"git -C /repo worktree add --detach {wt} HEAD", shell=True, capture_output=True)
        a = subprocess.run(f"git apply {p}", shell=True, cwd=wt, capture_output=True, text=True)
        if a.returncode != 0:
            a = subprocess.run(f"git apply --3way {p}", shell=True, cwd=wt, capture_output=True, text=True)
        if a.returncode != 0:
            return d, {"status": "patch-does-not-apply", "err": a.stderr[-200:]}, f"{d} patch-does-not-apply"
        if ALL:
            r = subprocess.run(f"./check ALL --repo {wt} --no-evidence", shell=True, cwd=V, capture_output=True, text=True)
            hits = [l.split(" ", 2) for l in r.stdout.splitlines() if " exit=1" in l]
            und = [l.split(" ", 1)[0] for l in r.stdout.splitlines() if " exit=2" in l]
            own = [h for h in hits if h[0] == pid]
            status = "caught" if own else ("caught-by-other" if hits else ("fail-closed(exit 2)" if und else "MISSED"))
            res = {"status": status, "hits": [h[0] for h in hits], "undecided": und, "report": [(h[2] if len(h) > 2 else "")[:260] for h in (own or hits)][:3]}
            line = f"{d} {status} | {','.join(h[0] for h in hits)} | {((own or hits)[0][2][:170] if (own or hits) and len((own or hits)[0]) > 2 else '')}" + (f" | undecided: {','.join(und)}" if und else "")
            return d, res, line
        r = subprocess.run(f"./check {pid} --repo {wt} --no-evidence", shell=True, cwd=V, capture_output=True, text=True)
        lines = [l for l in r.stdout.splitlines() if l.startswith("  C") or l.startswith("ANALYSIS-ERROR")]
        status = {0: "MISSED", 1: "caught", 2: "fail-closed(exit 2)"}.get(r.returncode, f"exit {r.returncode}")
        res = {"status": status, "exit": r.returncode, "report": [l.strip()[:260] for l in lines][:4]}
        return d, res, f"{d} {status} | {(lines[0].strip()[:200] if lines else '')}"
    finally:
        subprocess.run(f"git -C /repo worktree remove --force {wt}", shell=True, capture_output=True)
        shutil.rmtree(wt, ignore_errors=True)


ds = [d for d in sorted(os.listdir(f"{V}/seeded")) if os.path.exists(f"{V}/seeded/{d}/patch.diff") and (not only or d in only or d.split("-")[0] in only)]
res = {}
with ThreadPoolExecutor(max_workers=8) as ex:
    for d, r, line in ex.map(one, ds):
        res[d] = r
        print(line, flush=True)
if not only:
    json.dump(res, open(f"{V}/seeded/RESULTS_ALL.json" if ALL else f"{V}/seeded/RESULTS.json", "w"), indent=1)
elif ALL and os.path.exists(f"{V}/seeded/RESULTS_ALL.json"):
    # a partial --all run refreshes its entries in the full matrix
    full = json.load(open(f"{V}/seeded/RESULTS_ALL.json"))
    full.update(res)
    json.dump(dict(sorted(full.items())), open(f"{V}/seeded/RESULTS_ALL.json", "w"), indent=1)
from collections import Counter
print(Counter(v["status"] for v in res.values()))
