#!/usr/bin/env python3
"""Run the registered checks against every kept seeded change: apply the patch to /repo, run the check of the
property it breaks (no evidence written), undo. Prints a table and writes seeded/RESULTS.json."""
import json, os, subprocess, sys
V = "/verif"
ALL = "--all" in sys.argv
only = set(a for a in sys.argv[1:] if a != "--all")
res = {}
assert subprocess.run("git -C /repo status --porcelain --untracked-files=no", shell=True, capture_output=True, text=True).stdout.strip() == "", "/repo not clean"
for d in sorted(os.listdir(f"{V}/seeded")):
    p = f"{V}/seeded/{d}/patch.diff"
    if not os.path.exists(p):
        continue
    pid = d.split("-")[0]
    if only and pid not in only and d not in only:
        continue
    if not os.path.exists(f"{V}/rules/{pid.lower()}.py"):
        res[d] = {"status": "no-check-yet"}
        print(d, "no-check-yet")
        continue
    a = subprocess.run(f"git -C /repo apply {p}", shell=True, capture_output=True, text=True)
    if a.returncode != 0:
        a = subprocess.run(f"git -C /repo apply --3way {p}", shell=True, capture_output=True, text=True)
    try:
        if a.returncode != 0:
            res[d] = {"status": "patch-does-not-apply", "err": a.stderr[-200:]}
            print(d, "patch-does-not-apply")
            continue
        if ALL:
            r = subprocess.run("./check ALL --no-evidence", shell=True, cwd=V, capture_output=True, text=True)
            hits = [l.split(" ", 2) for l in r.stdout.splitlines() if " exit=1" in l]
            und = [l.split(" ", 1)[0] for l in r.stdout.splitlines() if " exit=2" in l]
            own = [h for h in hits if h[0] == pid]
            status = "caught" if own else ("caught-by-other" if hits else ("fail-closed(exit 2)" if und else "MISSED"))
            res[d] = {"status": status, "hits": [h[0] for h in hits], "undecided": und, "report": [(h[2] if len(h) > 2 else "")[:260] for h in (own or hits)][:3]}
            print(d, status, "|", ",".join(h[0] for h in hits), "|", ((own or hits)[0][2][:170] if (own or hits) and len((own or hits)[0]) > 2 else ""), ("| undecided: " + ",".join(und)) if und else "")
            continue
        r = subprocess.run(f"./check {pid} --no-evidence", shell=True, cwd=V, capture_output=True, text=True)
        lines = [l for l in r.stdout.splitlines() if l.startswith("  C") or l.startswith("ANALYSIS")]
        status = {0: "MISSED", 1: "caught", 2: "fail-closed(exit 2)"}.get(r.returncode, f"exit {r.returncode}")
        res[d] = {"status": status, "exit": r.returncode, "report": [l.strip()[:260] for l in lines][:4]}
        print(d, status, "|", (lines[0].strip()[:200] if lines else ""))
    finally:
        subprocess.run("git -C /repo reset -q --hard HEAD", shell=True)
if not only:
    json.dump(res, open(f"{V}/seeded/RESULTS_ALL.json" if ALL else f"{V}/seeded/RESULTS.json", "w"), indent=1)
