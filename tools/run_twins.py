#!/usr/bin/env python3
"""Run ALL registered checks against every kept behaviour-preserving refactor (twins/<id>-<k>/patch.diff): apply to /repo, run each
property's quick check without writing evidence, undo. Any exit 1 is a FALSE ALARM (to be fixed in the rule); exit 2 is a fail-closed
'cannot decide' (undesirable but not an alarm). Writes twins/RESULTS.json."""
import json, os, subprocess, sys
V = "/verif"
only = set(sys.argv[1:])
pids = sorted(f[:-3].upper() for f in os.listdir(f"{V}/rules") if f.startswith("c") and f.endswith(".py"))
assert subprocess.run("git -C /repo status --porcelain --untracked-files=no", shell=True, capture_output=True, text=True).stdout.strip() == "", "/repo not clean"
res = {}
try:
    res = json.load(open(f"{V}/twins/RESULTS.json"))
except Exception:
    pass
for d in sorted(os.listdir(f"{V}/twins")):
    p = f"{V}/twins/{d}/patch.diff"
    if not os.path.exists(p) or (only and d not in only and d.split("-")[0] not in only):
        continue
    a = subprocess.run(f"git -C /repo apply {p}", shell=True, capture_output=True, text=True)
    try:
        if a.returncode != 0:
            res[d] = {"status": "patch-does-not-apply"}
            print(d, "patch-does-not-apply"); continue
        alarms, undecided = [], []
        for pid in pids:
            r = subprocess.run(f"./check {pid} --no-evidence", shell=True, cwd=V, capture_output=True, text=True)
            if r.returncode == 1:
                lines = [l.strip()[:230] for l in r.stdout.splitlines() if l.startswith("  C")]
                alarms.append({"property": pid, "report": lines[:3]})
            elif r.returncode == 2:
                lines = [l.strip()[:230] for l in r.stdout.splitlines() if l.startswith("ANALYSIS")]
                undecided.append({"property": pid, "report": lines[:1]})
        res[d] = {"status": "FALSE-ALARM" if alarms else ("undecided" if undecided else "silent"), "alarms": alarms, "undecided": undecided}
        print(d, res[d]["status"], "|", "; ".join(f"{x['property']}: {x['report'][0] if x['report'] else ''}" for x in alarms + undecided)[:400])
    finally:
        subprocess.run("git -C /repo reset -q --hard HEAD", shell=True)
json.dump(res, open(f"{V}/twins/RESULTS.json", "w"), indent=1)
