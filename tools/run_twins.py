#!/usr/bin/env python3
"""Run ALL registered checks against every kept behaviour-preserving refactor (twins/<id>-<k>/patch.diff), each in its own scratch
worktree of /repo HEAD (checks are pointed at it with --repo), in parallel. Any exit 1 is a FALSE ALARM (to be fixed in the rule);
exit 2 is a fail-closed 'cannot decide' (undesirable, not an alarm). Writes twins/RESULTS.json."""
import json, os, shutil, subprocess, sys, tempfile
from concurrent.futures import ThreadPoolExecutor
V = "/verif"
args = sys.argv[1:]
PROP = None
if "-p" in args:
    PROP = args[args.index("-p") + 1]
    args = [a for a in args if a not in ("-p", PROP)]
only = set(args)

def one(d):
    p = f"{V}/twins/{d}/patch.diff"
    wt = tempfile.mkdtemp(prefix=f"tw_{d}_", dir="/tmp"); os.rmdir(wt)
    try:
        subprocess.run(f"git -C /repo worktree add --detach {wt} HEAD", shell=True, capture_output=True)
        a = subprocess.run(f"git apply {p}", shell=True, cwd=wt, capture_output=True, text=True)
        if a.returncode != 0:
            return d, {"status": "patch-does-not-apply"}
        if PROP:
            r = subprocess.run(f"./check {PROP} --repo {wt} --no-evidence", shell=True, cwd=V, capture_output=True, text=True)
            lines = [l.strip() for l in r.stdout.splitlines() if l.startswith("  C") or l.startswith("ANALYSIS")]
            return d, {"status": {0: "silent", 1: "FALSE-ALARM", 2: "undecided"}.get(r.returncode, "?"), "alarms": [{"property": PROP, "report": " | ".join(lines)[:500]}] if r.returncode == 1 else [],
                       "undecided": [{"property": PROP, "report": " | ".join(lines)[:300]}] if r.returncode == 2 else []}
        r = subprocess.run(f"./check ALL --repo {wt} --no-evidence", shell=True, cwd=V, capture_output=True, text=True)
        alarms, undecided = [], []
        for l in r.stdout.splitlines():
            parts = l.split(" ", 2)
            if len(parts) >= 2 and parts[1] == "exit=1":
                alarms.append({"property": parts[0], "report": parts[2][:400] if len(parts) > 2 else ""})
            elif len(parts) >= 2 and parts[1] == "exit=2":
                undecided.append({"property": parts[0], "report": parts[2][:300] if len(parts) > 2 else ""})
        return d, {"status": "FALSE-ALARM" if alarms else ("undecided" if undecided else "silent"), "alarms": alarms, "undecided": undecided}
    finally:
        subprocess.run(f"git -C /repo worktree remove --force {wt}", shell=True, capture_output=True)
        shutil.rmtree(wt, ignore_errors=True)

ds = [d for d in sorted(os.listdir(f"{V}/twins")) if os.path.exists(f"{V}/twins/{d}/patch.diff") and (not only or d in only or d.split("-")[0] in only)]
res = {}
if not PROP:
    try:
        res = json.load(open(f"{V}/twins/RESULTS.json"))
    except Exception:
        pass
with ThreadPoolExecutor(max_workers=10) as ex:
    for d, r in ex.map(one, ds):
        res[d] = r
        if PROP and r["status"] == "silent":
            continue
        print(d, r["status"], "|", "; ".join(f"{x['property']}: {x['report'][:150]}" for x in r.get("alarms", []) + r.get("undecided", []))[:420], flush=True)
if not PROP:
    json.dump(res, open(f"{V}/twins/RESULTS.json", "w"), indent=1)
from collections import Counter
print(Counter(v["status"] for k, v in res.items() if not only or k in ds))
