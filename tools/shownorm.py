#!/venv/bin/python
"""usage: shownorm.py <patchdir|-> <rel> <qualname> [--raw]  — print a function after normalisation, from /repo with the given twin/seed patch applied."""
import ast, os, shutil, subprocess, sys, tempfile
sys.path.insert(0, "/verif")
from tiv.srcmodel import Model
d, rel, q = sys.argv[1:4]
raw = "--raw" in sys.argv
repo = "/repo"
wt = None
if d != "-":
    p = d if os.path.isabs(d) else f"/verif/{d}"
    wt = tempfile.mkdtemp(prefix="sn_", dir="/tmp"); os.rmdir(wt)
    subprocess.run(f"git -C /repo worktree add --detach {wt} HEAD", shell=True, capture_output=True)
    a = subprocess.run(f"git apply {p}/patch.diff", shell=True, cwd=wt, capture_output=True, text=True)
    if a.returncode: print(a.stderr)
    repo = wt
try:
    m = Model(repo)
    rel = next(r for r in m.files if r.endswith(rel))
    f = m.files[rel]
    fn = (f.raw_defs if raw else f.defs).get(q)
    if fn is None:
        print("no such def; candidates:", [k for k in f.defs if q.split(".")[-1] in k])
    else:
        print(ast.unparse(fn))
finally:
    if wt:
        subprocess.run(f"git -C /repo worktree remove --force {wt}", shell=True, capture_output=True); shutil.rmtree(wt, ignore_errors=True)
