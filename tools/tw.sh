#!/bin/sh
# usage: tools/tw.sh Cxx  -> clean tree first (abort when not clean), then thorough self-test, seeds and twins for that property, output capped
cd /verif
P=$1
out=$(./check $P --tier thorough --no-evidence 2>&1); rc=$?
echo "$out" | grep -E "^C[0-9]+ \[|SELFTEST|ANALYSIS-ERROR|^  C[0-9]+\." | head -6 | cut -c1-330
if [ $rc -ne 0 ]; then echo "CLEAN TREE NOT CLEAN (exit $rc) - stopping"; exit 1; fi
python3 tools/run_seeds.py $P 2>&1 | grep -v " caught " | head -5 | cut -c1-300
python3 tools/run_twins.py -p $P 2>&1 | grep -v silent | head -14 | cut -c1-420
