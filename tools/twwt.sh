#!/bin/sh
# usage: tools/twwt.sh <twin-or-seed id> [Cxx ...]  -> scratch worktree /tmp/twfix/<id> with the patch applied (kept for iterating); runs the named checks (default ALL) on it
# tools/twwt.sh -d  removes all of them
if [ "$1" = "-d" ]; then for d in /tmp/twfix/*; do git -C /repo worktree remove --force $d 2>/dev/null; done; rm -rf /tmp/twfix; git -C /repo worktree prune; exit 0; fi
id=$1; shift
pref=""; case $id in seeded/*) pref=seeded; id=${id#seeded/};; twins/*) pref=twins; id=${id#twins/};; esac
wt=/tmp/twfix/$pref$id
mkdir -p /tmp/twfix
if [ ! -d $wt ]; then
  git -C /repo worktree add --detach $wt HEAD >/dev/null 2>&1
  p=/verif/twins/$id/patch.diff; [ -f $p ] || p=/verif/seeded/$id/patch.diff
  [ -n "$pref" ] && p=/verif/$pref/$id/patch.diff
  (cd $wt && git apply $p) || echo "PATCH FAILED"
fi
cd /verif
for c in ${@:-ALL}; do ./check $c --repo $wt --no-evidence 2>&1 | grep -E "^C[0-9]+ |^  C[0-9]+\.|ANALYSIS|exit=|internal" | cut -c1-900 | head -12; done
