#!/venv/bin/python
"""usage: uninlined.py <repo dir> — artefact helpers (defs not in the baseline) of a tree and whether the normaliser inlined them."""
import ast, sys
sys.path.insert(0, "/verif")
from tiv.srcmodel import Model
from tiv.normalize import is_artefact, baseline
m = Model(sys.argv[1])
for rel, f in m.files.items():
    base = baseline().get(rel, set())
    new = []
    for n in ast.walk(f.clean_tree):
        if isinstance(n, ast.FunctionDef) and n.name not in base and not (n.name.startswith("__") and n.name.endswith("__")):
            new.append(n.name)
    if new:
        print(rel, {n: ("inlined" if n in f.inlined_artefacts else "NOT-inlined") for n in new})
