#!/usr/bin/env python3
"""Verify seeded changes delivered by sub-agents under /tmp/wt/<id>/out/<k>/ in a fresh scratch worktree
of /repo HEAD: patch applies, suite result unchanged (1178 passed), demo fails with / passes without.
Accepted ones are copied to /verif/seeded/<id>-<k>/ with a meta.json extended by what was run here."""
import json, os, re, shutil, subprocess, sys, tempfile

def sh(cmd, cwd=None, env=None, timeout=900):
    p = subprocess.run(cmd, shell=True, cwd=cwd, env=env, capture_output=True, text=True, timeout=timeout)
    return p.returncode, p.stdout + p.stderr

def verify(pid, k):
    src = f"/tmp/wt/{pid}/out/{k}"
    if not os.path.exists(f"{src}/patch.diff"):
        return None
    wt = tempfile.mkdtemp(prefix=f"vs_{pid}_{k}_", dir="/tmp")
    os.rmdir(wt)
    res = {"id": f"{pid}-{k}", "property": pid}
    try:
        rc, out = sh(f"git -C /repo worktree add --detach {wt} HEAD")
        assert rc == 0, out
        env = dict(os.environ, PYTHONPATH=f"{wt}/src")
        os.makedirs(f"{wt}/out/{k}", exist_ok=True)
        shutil.copy(f"{src}/demo.py", f"{wt}/out/{k}/demo.py")
        # demo on clean tree
        rc0, out0 = sh(f"/venv/bin/python out/{k}/demo.py", cwd=wt, env=env, timeout=180)
        res["demo_clean_exit"] = rc0
        rc, out = sh(f"git apply {src}/patch.diff", cwd=wt)
        res["applies"] = rc == 0
        if rc != 0:
            rc, out = sh(f"git apply --3way {src}/patch.diff", cwd=wt)
            res["applies_3way"] = rc == 0
            if rc != 0:
                res["error"] = out[-400:]
                return res
        rc, out = sh("git diff --stat", cwd=wt)
        res["diffstat"] = out.strip().splitlines()[-1] if out.strip() else ""
        res["files"] = [l.split("|")[0].strip() for l in out.strip().splitlines()[:-1]]
        rc1, out1 = sh(f"/venv/bin/python out/{k}/demo.py", cwd=wt, env=env, timeout=180)
        res["demo_patched_exit"] = rc1
        res["demo_patched_tail"] = out1.strip().splitlines()[-1][:300] if out1.strip() else ""
        rc, out = sh("/venv/bin/python -m pytest -q -p no:cacheprovider --timeout=900 --continue-on-collection-errors -x -q 2>&1 | tail -3", cwd=wt, env=env)
        rc, out = sh("/venv/bin/python -m pytest -q -p no:cacheprovider --timeout=900 --continue-on-collection-errors 2>&1 | tail -1", cwd=wt, env=env)
        res["suite"] = out.strip()
        m = re.search(r"(\d+) passed", out)
        f = re.search(r"(\d+) failed", out)
        res["suite_ok"] = bool(m and int(m.group(1)) == 1178 and (not f or int(f.group(1)) <= 4))
        res["accepted"] = bool(res["suite_ok"] and rc0 == 0 and rc1 != 0)
        return res
    finally:
        sh(f"git -C /repo worktree remove --force {wt}")
        shutil.rmtree(wt, ignore_errors=True)

if __name__ == "__main__":
    for pid in sys.argv[1:]:
        for k in (1, 2, 3):
            r = verify(pid, k)
            if r is None:
                continue
            print(json.dumps(r))
            if r.get("accepted"):
                dst = f"/verif/seeded/{pid}-{k}"
                os.makedirs(dst, exist_ok=True)
                shutil.copy(f"/tmp/wt/{pid}/out/{k}/patch.diff", dst)
                shutil.copy(f"/tmp/wt/{pid}/out/{k}/demo.py", dst)
                try:
                    meta = json.load(open(f"/tmp/wt/{pid}/out/{k}/meta.json"))
                except Exception as e:
                    meta = {"property": pid, "summary": f"(agent meta.json unreadable: {e})"}
                meta["breaks_property"] = pid
                meta["verified_here"] = {
                    "base": subprocess.run("git -C /repo log --format=%h -1", shell=True, capture_output=True, text=True).stdout.strip(),
                    "ran": ["git apply patch.diff (fresh scratch worktree of /repo HEAD)",
                            "pytest -q -p no:cacheprovider --timeout=900 --continue-on-collection-errors (PYTHONPATH=<worktree>/src)",
                            "demo.py on clean tree and on patched tree"],
                    "suite": r["suite"], "demo_clean_exit": r["demo_clean_exit"], "demo_patched_exit": r["demo_patched_exit"],
                    "files": r.get("files"),
                }
                json.dump(meta, open(f"{dst}/meta.json", "w"), indent=1)
