#!/usr/bin/env python3
"""Round 2: verify seeded changes delivered under /tmp/wt2/<id>/out/<k>/ (fresh scratch worktree of /repo HEAD: patch applies, suite
unchanged, demo passes without / fails with the change), then - BEFORE any rule is touched - run every registered check against the
patched worktree and record the blind verdict (`first_status`). Accepted ones are kept as /verif/seeded/<id>-r2-<k>/."""
import json, os, re, shutil, subprocess, sys, tempfile
from concurrent.futures import ThreadPoolExecutor

ROOT = os.environ.get("SEED_ROOT", "/tmp/wt2")
TAG = os.environ.get("SEED_TAG", "r2")

def sh(cmd, cwd=None, env=None, timeout=1500):
    p = subprocess.run(cmd, shell=True, cwd=cwd, env=env, capture_output=True, text=True, timeout=timeout)
    return p.returncode, p.stdout + p.stderr

def verify(arg):
    pid, k = arg
    src = f"{ROOT}/{pid}/out/{k}"
    if not os.path.exists(f"{src}/patch.diff") or not os.path.exists(f"{src}/demo.py"):
        return None
    wt = tempfile.mkdtemp(prefix=f"vs2_{pid}_{k}_", dir="/tmp")
    os.rmdir(wt)
    res = {"id": f"{pid}-{TAG}-{k}", "property": pid}
    try:
        rc, out = sh(f"git -C /repo worktree add --detach {wt} HEAD")
        assert rc == 0, out
        env = dict(os.environ, PYTHONPATH=f"{wt}/src")
        os.makedirs(f"{wt}/out/{k}", exist_ok=True)
        shutil.copy(f"{src}/demo.py", f"{wt}/out/{k}/demo.py")
        rc0, out0 = sh(f"/venv/bin/python out/{k}/demo.py", cwd=wt, env=env, timeout=240)
        res["demo_clean_exit"] = rc0
        rc, out = sh(f"git apply {src}/patch.diff", cwd=wt)
        res["applies"] = rc == 0
        if rc != 0:
            res["error"] = out[-300:]
            return res
        rc, out = sh("git diff --stat", cwd=wt)
        res["files"] = [l.split("|")[0].strip() for l in out.strip().splitlines()[:-1]]
        rc1, out1 = sh(f"/venv/bin/python out/{k}/demo.py", cwd=wt, env=env, timeout=240)
        res["demo_patched_exit"] = rc1
        res["demo_patched_tail"] = out1.strip().splitlines()[-1][:300] if out1.strip() else ""
        rc, out = sh("/venv/bin/python -m pytest -q -p no:cacheprovider --timeout=900 --continue-on-collection-errors 2>&1 | tail -1", cwd=wt, env=env)
        res["suite"] = out.strip()
        m = re.search(r"(\d+) passed", out)
        f = re.search(r"(\d+) failed", out)
        res["suite_ok"] = bool(m and int(m.group(1)) == 1178 and (not f or int(f.group(1)) <= 4))
        res["accepted"] = bool(res["suite_ok"] and rc0 == 0 and rc1 != 0)
        # blind verdict of the checks as they are now
        sh("rm -rf out", cwd=wt)
        rc, out = sh(f"./check ALL --repo {wt} --no-evidence", cwd="/verif")
        hits, und = [], []
        for l in out.splitlines():
            parts = l.split(" ", 2)
            if len(parts) >= 2 and parts[1] == "exit=1":
                hits.append({"property": parts[0], "report": parts[2][:300] if len(parts) > 2 else ""})
            elif len(parts) >= 2 and parts[1] == "exit=2":
                und.append({"property": parts[0], "report": parts[2][:200] if len(parts) > 2 else ""})
        res["first_status"] = "caught" if any(h["property"] == pid for h in hits) else ("caught-by-other" if hits else ("undecided" if und else "missed"))
        res["first_hits"] = hits
        res["first_undecided"] = und
        return res
    finally:
        sh(f"git -C /repo worktree remove --force {wt}")
        shutil.rmtree(wt, ignore_errors=True)

if __name__ == "__main__":
    jobs = [(pid, k) for pid in sys.argv[1:] for k in (1, 2, 3)]
    jobs = [j for j in jobs if not os.path.exists(f"/verif/seeded/{j[0]}-{TAG}-{j[1]}")]
    with ThreadPoolExecutor(max_workers=6) as ex:
        for (pid, k), r in zip(jobs, ex.map(verify, jobs)):
            if r is None:
                continue
            print(json.dumps({kk: r[kk] for kk in ("id", "accepted", "suite", "demo_clean_exit", "demo_patched_exit", "first_status") if kk in r}), flush=True)
            if r.get("accepted"):
                dst = f"/verif/seeded/{pid}-{TAG}-{k}"
                os.makedirs(dst, exist_ok=True)
                shutil.copy(f"{ROOT}/{pid}/out/{k}/patch.diff", dst)
                shutil.copy(f"{ROOT}/{pid}/out/{k}/demo.py", dst)
                try:
                    meta = json.load(open(f"{ROOT}/{pid}/out/{k}/meta.json"))
                except Exception as e:
                    meta = {"property": pid, "summary": f"(agent meta.json unreadable: {e})"}
                meta["breaks_property"] = pid
                meta["round"] = int(TAG[1:]) if TAG[1:].isdigit() else TAG
                meta["first_status"] = r["first_status"]
                meta["first_hits"] = r["first_hits"]
                meta["first_undecided"] = r["first_undecided"]
                meta["verified_here"] = {
                    "base": subprocess.run("git -C /repo log --format=%h -1", shell=True, capture_output=True, text=True).stdout.strip(),
                    "ran": ["git apply patch.diff (fresh scratch worktree of /repo HEAD)",
                            "pytest -q -p no:cacheprovider --timeout=900 --continue-on-collection-errors (PYTHONPATH=<worktree>/src)",
                            "demo.py on clean tree and on patched tree", "./check ALL --repo <worktree> (blind, before any rule change)"],
                    "suite": r["suite"], "demo_clean_exit": r["demo_clean_exit"], "demo_patched_exit": r["demo_patched_exit"], "files": r.get("files"),
                }
                json.dump(meta, open(f"{dst}/meta.json", "w"), indent=1)
