#!/usr/bin/env python3
"""Verify behaviour-preserving refactors delivered under /tmp/wtr/<id>/out/<k>/patch.diff: the patch applies to /repo HEAD and the
suite result is unchanged. Kept ones are copied to /verif/twins/<id>-<k>/. (Behaviour preservation beyond the suite was argued by the
sub-agent and is re-read by hand when a check fires on a twin.)"""
import json, os, re, shutil, subprocess, sys, tempfile
from concurrent.futures import ThreadPoolExecutor

def sh(cmd, cwd=None, env=None, timeout=900):
    p = subprocess.run(cmd, shell=True, cwd=cwd, env=env, capture_output=True, text=True, timeout=timeout)
    return p.returncode, p.stdout + p.stderr

ROOT = os.environ.get("TWIN_ROOT", "/tmp/wtr")
TAG = os.environ.get("TWIN_TAG", "")


def one(args):
    pid, k = args
    src = f"{ROOT}/{pid}/out/{k}"
    if not os.path.exists(f"{src}/patch.diff"):
        return None
    wt = tempfile.mkdtemp(prefix=f"vt_{pid}_{k}_", dir="/tmp"); os.rmdir(wt)
    try:
        rc, out = sh(f"git -C /repo worktree add --detach {wt} HEAD")
        rc, out = sh(f"git apply {src}/patch.diff", cwd=wt)
        if rc != 0:
            return {"id": f"{pid}-{TAG}{k}", "applies": False, "err": out[-200:]}
        env = dict(os.environ, PYTHONPATH=f"{wt}/src")
        rc, out = sh("/venv/bin/python -m pytest -q -p no:cacheprovider --timeout=900 --continue-on-collection-errors 2>&1 | tail -1", cwd=wt, env=env)
        m = re.search(r"(\d+) passed", out); f = re.search(r"(\d+) failed", out)
        ok = bool(m and int(m.group(1)) == 1178 and (not f or int(f.group(1)) <= 4))
        res = {"id": f"{pid}-{TAG}{k}", "applies": True, "suite": out.strip(), "suite_ok": ok}
        if ok:
            dst = f"/verif/twins/{pid}-{TAG}{k}"; os.makedirs(dst, exist_ok=True)
            shutil.copy(f"{src}/patch.diff", dst)
            try:
                meta = json.load(open(f"{src}/meta.json"))
            except Exception:
                meta = {}
            meta["anchored_property"] = pid
            meta["verified_here"] = {"suite": out.strip(), "base": sh("git -C /repo log --format=%h -1")[1].strip()}
            json.dump(meta, open(f"{dst}/meta.json", "w"), indent=1)
        return res
    finally:
        sh(f"git -C /repo worktree remove --force {wt}"); shutil.rmtree(wt, ignore_errors=True)

if __name__ == "__main__":
    jobs = [(pid, k) for pid in sys.argv[1:] for k in range(1, 7)]
    with ThreadPoolExecutor(max_workers=6) as ex:
        for r in ex.map(one, jobs):
            if r:
                print(json.dumps(r), flush=True)
